#!/bin/bash
# usage: tools/seedrun.sh <seed-name> <tier> <ID> [more IDs...]
# applies /verif/seeded/<seed-name>/patch.diff to /repo, runs the given checks, reverts; appends to meta.json.
set -u
name=$1; tier=$2; shift 2
out=/verif/seeded/$name
cd /repo; [ -z "$(git status --porcelain)" ] || { echo "repo dirty"; exit 3; }
git apply $out/patch.diff || { echo "patch does not apply to /repo"; exit 3; }
res=""
for id in "$@"; do
  cd /verif; o=$(./check $id $tier 2>&1); rc=$?
  echo "$o" | grep -E "^(VIOLATION|INCONCLUSIVE)" | head -1 | cut -c1-200
  res="$res $id:$tier:exit$rc"
done
git -C /repo checkout -- .
echo "RESULT seed=$name checks=[$res ]"
python3 - "$out" "$res" <<'PY'
import json,sys,os
out,res=sys.argv[1:3]
p=os.path.join(out,'meta.json'); meta=json.load(open(p))
runs=meta.setdefault("check_runs",[])
for r in res.split(): runs.append(r+" (re-run after strengthening)" if any(x.startswith(r.split(':')[0]+':') for x in runs) else r)
json.dump(meta,open(p,'w'),indent=1)
PY
