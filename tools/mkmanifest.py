#!/usr/bin/env python3
"""Regenerate /verif/MANIFEST.json from props.py (run after editing props.py)."""
import json, os, sys
ROOT = os.path.dirname(os.path.dirname(os.path.abspath(__file__)))
sys.path.insert(0, ROOT)
from props import PROPS, NOT_APPLICABLE

all_ids = [json.loads(l)["id"] for l in open(os.path.join(ROOT, "properties.jsonl"))]
checks = []
for pid in all_ids:
    if pid not in PROPS:
        continue
    c = PROPS[pid]
    checks.append({
        "property_id": pid,
        "quick_cmd": "./check %s quick" % pid,
        "thorough_cmd": "./check %s thorough" % pid,
        "evidence_file": "/verif/evidence/%s.json" % pid,
        "replay_cmd_template": "./check %s --replay {path}" % pid,
        "engine": c.get("engine", "rapid+sweep"),
        "level_claimed": {"category": "exploration", "text": c["level_text"], "design_ref": c.get("design_ref", "DESIGN.md section 4, " + pid)},
        "level_note": c["level_note"],
        "technique": c["technique"],
    })
na = [{"property_id": pid, "reason": NOT_APPLICABLE.get(pid, "check not built yet in this session; see DESIGN.md section 8")}
      for pid in all_ids if pid not in PROPS]
m = {
    "version": 1,
    "setup_cmd": "./setup.sh",
    "hooks": {
        "guard": "verif",
        "enable": "no hooks are needed: every property is observed through the exported API; the harness module replaces pipelined.dev/signal with /repo, so each check compiles /repo's working tree",
        "baseline_off_cmd": "cd /repo && GOFLAGS=-mod=mod GOPROXY=off GOSUMDB=off go test -json -vet=off -count=1 -timeout 25m ./...",
        "source_commits": [],
        "add_only": True,
    },
    "engines": [
        {"name": "rapid", "path": "harness/kit/main.go", "serves_properties": sorted(PROPS), "kind_free_text": "pgregory.net/rapid v1.3.0 generators and state machines, seeded from VERIF_SEED, shrinking to a replay file"},
        {"name": "sweep", "path": "harness/*/ *_test.go TestSweep", "serves_properties": sorted(PROPS), "kind_free_text": "deterministic bounded-exhaustive enumeration of small finite sub-domains through the same oracle"},
        {"name": "native-fuzz", "path": "harness/*/ Fuzz*", "serves_properties": [p for p in sorted(PROPS) if PROPS[p]["thorough"].get("fuzz")], "kind_free_text": "go test -fuzz (coverage guided) in the thorough tier, oracle inside the target"},
    ],
    "checks": checks,
    "not_applicable": na,
    "notes": "Driver: ./check <ID> quick|thorough|--replay <file>. Exit 2 = inconclusive (build failure/timeout), never with a VIOLATION line. Known findings: known_findings.json.",
}
json.dump(m, open(os.path.join(ROOT, "MANIFEST.json"), "w"), indent=1)
print("wrote MANIFEST.json with", len(checks), "checks,", len(na), "not claimed")
