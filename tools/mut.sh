#!/bin/bash
# usage: tools/mut.sh <file-in-repo> <sed-expr> <ID> [tier]  -- apply a one-line mutant to /repo, run the check, revert.
# Also runs the repository's own tests on the mutant to confirm it is silent there.
set -u
f=$1; expr=$2; id=$3; tier=${4:-quick}
cd /repo || exit 3
if [ -n "$(git status --porcelain)" ]; then echo "repo dirty"; exit 3; fi
sed -i "$expr" "$f"
if [ -z "$(git status --porcelain)" ]; then echo "MUTANT-NOOP"; exit 3; fi
git diff | grep '^[+-]' | grep -v '^+++\|^---'
export GOFLAGS=-mod=mod GOPROXY=off GOSUMDB=off GOTOOLCHAIN=local
if go test -count=1 ./... >/tmp/mut_suite.log 2>&1; then echo "suite: PASS (mutant survives the repository tests)"; else echo "suite: FAIL (mutant killed by the repository tests)"; tail -5 /tmp/mut_suite.log; fi
rm -f /tmp/mut_suite.log
git checkout -- go.sum go.mod 2>/dev/null
cd /verif && ./check "$id" "$tier" | grep -v '^KNOWN' | tail -4
rc=${PIPESTATUS[0]}
git -C /repo checkout -- .
echo "check exit=$rc"
