#!/bin/bash
# usage: tools/runall.sh quick|thorough [IDs...]  -- run checks on the current tree, print one line each (regenerates evidence)
tier=${1:-quick}; shift
ids=${@:-$(cd /verif && ./check --list)}
cd /verif
fail=0
for id in $ids; do
  o=$(./check $id $tier 2>&1); rc=$?
  echo "$o" | grep -E "^(VIOLATION|INCONCLUSIVE|KNOWN)" | cut -c1-160
  echo "$(echo "$o" | tail -1) exit=$rc"
  [ $rc -ne 0 ] && fail=1
done
exit $fail
