#!/bin/bash
# usage: tools/seedmatrix.sh [tier]  -- every kept seed against the check of its own property; prints one line per seed
tier=${1:-quick}
cd /verif
for d in seeded/C*; do
  name=$(basename $d); id=${name%%-*}
  r=$(tools/seedrun.sh $name $tier $id 2>&1 | grep RESULT)
  echo "$r"
done
