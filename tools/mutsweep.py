#!/usr/bin/env python3
"""Systematic single-token mutation sweep (development tool, not a registered check).

Every mutant of /repo's non-test sources (HEAD version) produced by the
operators below is applied to a scratch copy of the library; when it still
compiles and the library's own test suite still passes, a scratch copy of
/verif (its harness pointed at the mutated copy) runs the quick checks until
one reports a violation.  Survivors are the interesting output: each is either
an equivalent mutant, a change outside every listed property, or a gap.

usage: tools/mutsweep.py [--workers N] [--files a.go,b.go] [--only REGEX]
                         [--full] [--ids C01,C02] [--out results.jsonl]
                         [--mutants mutants.jsonl (re-run exactly these)]
Nothing is written to /repo; scratch lives under /tmp/mh and is removed.
"""
import argparse, json, os, re, shutil, subprocess, sys, threading, queue, time

VERIF = os.path.dirname(os.path.dirname(os.path.abspath(__file__)))
REPO = "/repo"
SCRATCH = "/tmp/mh"
ENV = dict(os.environ, GOFLAGS="-mod=mod", GOPROXY="off", GOSUMDB="off", GOTOOLCHAIN="local")

OPS = [
    (r"<=", ["<"]), (r">=", [">"]), (r"(?<![<\-])<(?![<=\-])", ["<="]), (r"(?<![>\-])>(?![>=])", [">="]),
    (r"==", ["!="]), (r"!=", ["=="]),
    (r"&&", ["||"]), (r"\|\|", ["&&"]),
    (r"(?<![+\w\)\]] )(?<![+])\+(?![+=])", ["-"]), (r"(?<![\-<])-(?![\-=>])", ["+"]),
    (r"(?<![/*])\*(?![/=])", ["/"]), (r"(?<![/*])/(?![/*=])", ["*"]), (r"%", ["*"]),
    (r"<<", [">>"]), (r">>", ["<<"]),
    (r"\b0\b", ["1"]), (r"\b1\b", ["0", "2"]), (r"\b2\b", ["1", "3"]),
    (r"\+= ", ["-= ", "= "]), (r"-= ", ["+= "]), (r"\+\+", ["--"]), (r"--", ["++"]),
    (r"\bmin\(", ["max("]), (r"\bmax\(", ["min("]),
    (r"\.Len\(\)", [".Cap()"]), (r"\.Cap\(\)", [".Len()"]),
    (r"\.Length\(\)", [".Capacity()"]), (r"\.Capacity\(\)", [".Length()"]),
    (r"\blen\(", ["cap("]), (r"\bcap\(", ["len("]),
    (r"\btrue\b", ["false"]), (r"\bfalse\b", ["true"]),
    (r"\bsrc\b", ["dst"]), (r"\bdst\b", ["src"]),
    (r"\bstart\b", ["end"]), (r"\bend\b", ["start"]),
    (r"\bMaxSignedValue\b", ["MinSignedValue"]),
    (r"\bcontinue\b", ["break"]), (r"\bbreak\b", ["continue"]),
    (r"\breturn\b(?= \S)", ["return //"]),  # only kept when it still compiles
    (r"^(\s*)(\S.*)$", ["\\1// deleted: \\2"]),  # statement deletion
]


def code_span(line):
    """index where a // comment starts (naive, no strings with // in this codebase)"""
    i = line.find("//")
    return len(line) if i < 0 else i


def enumerate_mutants(files, only):
    out = []
    for f in files:
        src = subprocess.run(["git", "-C", REPO, "show", "HEAD:" + f], capture_output=True, text=True, check=True).stdout
        lines = src.split("\n")
        in_block_comment = False
        for ln, line in enumerate(lines):
            s = line.strip()
            if s.startswith("/*"):
                in_block_comment = True
            if in_block_comment:
                if "*/" in s:
                    in_block_comment = False
                continue
            if not s or s.startswith("//") or s.startswith("package ") or s.startswith("import"):
                continue
            end = code_span(line)
            code = line[:end]
            for pat, reps in OPS:
                for m in re.finditer(pat, code):
                    for rep in reps:
                        if pat.startswith("^"):
                            if s in ("}", "{", ")", "(", "})") or s.endswith("{") or s.startswith("}") or s.startswith("func ") \
                                    or s.startswith("type ") or s.startswith("var ") or s.startswith("const ") or s.startswith("case ") \
                                    or s.startswith("default"):
                                continue
                            new = re.sub(pat, rep, code) + line[end:]
                        else:
                            new = code[:m.start()] + m.expand(rep) + code[m.end():] + line[end:]
                        if new == line:
                            continue
                        mid = "%s:%d:%d:%s" % (f, ln + 1, m.start(), rep.strip() or "del")
                        if only and not re.search(only, mid + " " + line):
                            continue
                        out.append(dict(id=mid, file=f, line=ln + 1, old=line, new=new))
    return out


def anchors():
    """property id -> list of (file, lo, hi) from properties.jsonl"""
    res = {}
    for l in open(os.path.join(VERIF, "properties.jsonl")):
        p = json.loads(l)
        spans = []
        for mech in p.get("anchors", {}).get("mechanism", []):
            for m in re.finditer(r"(\w+\.go):(\d+)(?:-(\d+))?", mech.get("where", "")):
                spans.append((m.group(1), int(m.group(2)), int(m.group(3) or m.group(2))))
        res[p["id"]] = spans
    return res


def run(cmd, cwd, timeout, env=ENV):
    try:
        p = subprocess.run(cmd, cwd=cwd, env=env, capture_output=True, text=True, timeout=timeout)
        return p.returncode, p.stdout + p.stderr
    except subprocess.TimeoutExpired as e:
        return 124, "timeout"


def setup_worker(i, full):
    w = os.path.join(SCRATCH, "w%d" % i)
    shutil.rmtree(w, ignore_errors=True)
    os.makedirs(w + "/repo")
    subprocess.run("git -C %s archive HEAD | tar -x -C %s/repo" % (REPO, w), shell=True, check=True)
    subprocess.run(["rsync", "-a", "--exclude", ".git", "--exclude", "work", "--exclude", "seeded", "--exclude", "evidence",
                    "--exclude", "replays", "--exclude", "mutsweep", VERIF + "/", w + "/verif/"], check=True)
    os.makedirs(w + "/verif/evidence", exist_ok=True)
    gm = open(w + "/verif/harness/go.mod").read().replace("=> /repo", "=> " + w + "/repo")
    open(w + "/verif/harness/go.mod", "w").write(gm)
    if not full:
        with open(w + "/verif/props.py", "a") as f:
            f.write("\nfor _p in PROPS.values():\n    _r = _p['quick'].get('rapid')\n    if _r: _r['shards'] = min(_r['shards'], 3)\n")
    return w


def worker(i, q, results, lock, ids, anc, full, outpath):
    w = setup_worker(i, full)
    env = dict(ENV, VERIF_SEED="1")
    while True:
        try:
            mu = q.get_nowait()
        except queue.Empty:
            break
        t0 = time.time()
        path = os.path.join(w, "repo", mu["file"])
        orig = open(path).read()
        lines = orig.split("\n")
        assert lines[mu["line"] - 1] == mu["old"], (mu, lines[mu["line"] - 1])
        lines[mu["line"] - 1] = mu["new"]
        open(path, "w").write("\n".join(lines))
        res = dict(mu, status=None, killer=None, inconclusive=[])
        try:
            rc, out = run(["go", "build", "./..."], w + "/repo", 120)
            if rc != 0:
                res["status"] = "nocompile"
                continue
            rc, out = run(["go", "vet", "."], w + "/repo", 120)
            rc, out = run(["go", "test", "-count=1", "./..."], w + "/repo", 180)
            if rc != 0:
                res["status"] = "killed_by_suite"
                continue
            order = sorted(ids, key=lambda p: 0 if any(f == mu["file"] and lo - 2 <= mu["line"] <= hi + 2 for f, lo, hi in anc.get(p, [])) else 1)
            res["status"] = "survived"
            for pid in order:
                rc, out = run([w + "/verif/check", pid, "quick"], w + "/verif", 900, env)
                if rc == 1 and "VIOLATION property=" in out:
                    res["status"] = "killed"
                    res["killer"] = pid
                    m = re.search(r"PROPERTY-FAIL[^\n]*|VIOLATION[^\n]*", out)
                    res["how"] = (m.group(0) if m else "")[:300]
                    break
                if rc != 0:
                    res["inconclusive"].append(pid)
            shutil.rmtree(w + "/verif/replays", ignore_errors=True)
        finally:
            open(path, "w").write(orig)
            res["secs"] = round(time.time() - t0, 1)
            with lock:
                results.append(res)
                with open(outpath, "a") as f:
                    f.write(json.dumps(res) + "\n")
                print("[%d left] %-40s %-16s %s %ss  | %s" % (q.qsize(), mu["id"], res["status"], res.get("killer") or "", res["secs"], mu["new"].strip()[:70]), flush=True)
    shutil.rmtree(w, ignore_errors=True)


def main():
    ap = argparse.ArgumentParser()
    ap.add_argument("--workers", type=int, default=3)
    ap.add_argument("--files", default="signal.go,buffer.go,channel.go,allocator.go,pool.go")
    ap.add_argument("--only", default="")
    ap.add_argument("--full", action="store_true", help="unreduced quick budgets")
    ap.add_argument("--ids", default="")
    ap.add_argument("--out", default=os.path.join(VERIF, "mutsweep", "results.jsonl"))
    ap.add_argument("--mutants", default="")
    ap.add_argument("--list", action="store_true")
    a = ap.parse_args()
    if a.mutants:
        muts = [json.loads(l) for l in open(a.mutants)]
        muts = [dict(id=m["id"], file=m["file"], line=m["line"], old=m["old"], new=m["new"]) for m in muts]
    else:
        muts = enumerate_mutants(a.files.split(","), a.only)
    if a.list:
        for m in muts:
            print(m["id"], "|", m["new"].strip())
        print(len(muts), "mutants")
        return
    sys.path.insert(0, VERIF)
    import props
    ids = a.ids.split(",") if a.ids else sorted(props.PROPS)
    os.makedirs(os.path.dirname(a.out), exist_ok=True)
    done = set()
    if os.path.exists(a.out) and not a.mutants:
        done = {json.loads(l)["id"] for l in open(a.out)}
    q = queue.Queue()
    for m in muts:
        if m["id"] not in done:
            q.put(m)
    print("%d mutants, %d already done" % (len(muts), len(done)), flush=True)
    results, lock, anc = [], threading.Lock(), anchors()
    os.makedirs(SCRATCH, exist_ok=True)
    ts = [threading.Thread(target=worker, args=(i, q, results, lock, ids, anc, a.full, a.out)) for i in range(a.workers)]
    [t.start() for t in ts]
    [t.join() for t in ts]
    shutil.rmtree(SCRATCH, ignore_errors=True)
    by = {}
    for r in results:
        by[r["status"]] = by.get(r["status"], 0) + 1
    print(by)


if __name__ == "__main__":
    main()
