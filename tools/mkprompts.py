#!/usr/bin/env python3
"""Builds the prompts for a round of seeded-change sub-agents (development tool).

usage: tools/mkprompts.py [--free] [--dir /tmp/wt]

Writes into --dir (scratch, outside /repo and /verif):
  ALL.properties.txt   the twenty properties (id, title, statement, quantifier text only)
  ALL.previous.txt     one line per change produced so far (kept and rejected)
  Cxx.property.txt     the text of one property
  Cxx.prompt.txt       default: one prompt per property (break THIS property; earlier attempts listed)
  Fnn.prompt.txt       --free: twenty prompts with a focus hint each; the agent picks the property
A sub-agent gets only its prompt, the property text(s) and its own worktree <dir>/<name>;
nothing from /verif is shown to it (the summaries of earlier changes describe library changes only).
"""
import argparse, glob, json, os

VERIF = os.path.dirname(os.path.dirname(os.path.abspath(__file__)))

HEAD = """You are helping to test a verification harness by mutation. Work ONLY inside the git worktree {dir}/{wt} (a checkout of a small Go library, module pipelined.dev/signal). Do not read or write anything under /verif or /repo."""

TASK_ONE = """ The property you must break is described in {dir}/{wt}.property.txt - read it first, then read the library source in the worktree.

Task: devise ONE change to the library's non-test .go source that
 (a) still compiles,
 (b) keeps the existing test suite passing, unedited (`go test -count=1 ./...` in the worktree), and
 (c) breaks the property.
The change must be realistic - the kind of bug a maintainer could plausibly introduce (off-by-one, wrong bound, a missed case, an "optimisation" that is wrong in a corner, a cache, a reordering) - and it must need something SPECIFIC to manifest: a multi-step sequence of operations, an unusual input / shape / element type / bit depth, a particular interleaving, or two cooperating sites that each look fine alone. Do not produce a change that ordinary use would expose at once (e.g. every call returning a wrong value), and do not special-case absurd magic constants that no real bug would contain. {extra}
Produce a change with a mechanism of a DIFFERENT KIND from all of the above, and make it hard to find for a diligent tester. Stay strictly inside what the property text quantifies over (do not rely on inputs, call orders or concurrency the property does not cover), keep the change something a maintainer could plausibly write, and keep the existing tests green. If, after reading the earlier attempts, you conclude that every clause of the property is already covered by them, look for a breakage that only appears for a specific realistic COMBINATION the earlier attempts did not need (element type x channel count x length relation x history), or one that lives in code shared with other functions (the embedded channels/bitDepth helper types, Buffer methods used by the function, the generic constraints).
"""

TASK_FREE = """

Read {dir}/ALL.properties.txt (twenty properties the library is supposed to satisfy), then the library source in your worktree, then {dir}/ALL.previous.txt (the changes already produced earlier - do not repeat any of their mechanisms or close variants; entries marked REJECTED were judged not to break their property, with the reason).

Task: devise ONE change to the library's non-test .go source that
 (a) still compiles,
 (b) keeps the existing test suite passing, unedited (`go test -count=1 ./...` in the worktree), and
 (c) breaks AT LEAST ONE of the twenty properties - you choose which; say which one(s) in seed.json.
Pick the breakage you judge HARDEST for a diligent tester to find, while staying strictly inside what the chosen property quantifies over (its statement and its "quantified over" text; do not rely on inputs, call orders or concurrency the property does not cover) and while remaining a change a maintainer could plausibly write (an optimisation, a refactoring, a portability fix, an added cache or fast path, an API tidy-up). It must need something SPECIFIC to manifest, and must not contain absurd magic constants. Focus hint for you: {focus}
"""

TAIL = """
Deliverables, all inside {dir}/{wt}/ :
 1. the change applied in the working tree and saved as seed.patch (`git diff -- '*.go' > seed.patch`, taken BEFORE you add the demo file, so that it contains only your source change);
 2. zz_seed_demo_test.go (package signal_test, an ordinary Go test function TestSeedDemo; it may use goroutines, loops, several buffers) that FAILS with the change and PASSES without it;
 3. seed.json with the fields: property (the id of the property you break, e.g. "C07"; exactly one id), also_breaks (list of other ids, may be empty), summary (what you changed and why it breaks the property), needs (what exactly is needed for the breakage to manifest), ran (the commands you ran and what they printed, briefly).
Verify all three claims yourself and say so in seed.json: the unedited suite passes with the change (`go test -count=1 -skip TestSeedDemo ./...`), the demo fails with the change (`go test -count=1 -run TestSeedDemo ./...`; for concurrency properties use `-race` and/or repeat runs and say which; for allocation counts do NOT use -race), and the demo passes when the change is reverted (`git apply -R seed.patch`, run, then re-apply). Leave the change APPLIED at the end.

Environment: the sandbox is offline. Prefix every shell command with `export GOFLAGS=-mod=mod GOPROXY=off GOSUMDB=off GOTOOLCHAIN=local;`. Do not modify go.mod or go.sum (if go rewrites go.sum, restore it with `git checkout go.sum`). Keep your final report SHORT (under 300 words): which property, what the change is, what it needs to manifest, and the verification outcomes.
"""

FOCUS = [
    "state that lives for the whole process (package-level tables, sync.Once, memoised scales) and makes a result depend on which call came first",
    "behaviour that differs between 64-bit and 32-bit platforms, or between int/uint/uintptr and the sized integer types",
    "value-dependent fast paths: code that scans or classifies the samples first (all zero, all in range, all equal, sorted) and then takes a shortcut",
    "data the CALLER owns: input slices, nested slices, source buffers, allocator values - modified, retained or aliased by the library",
    "exactly 'round' arguments: whole frames, whole seconds or milliseconds, powers of two, lengths equal to capacities, equal source and destination lengths",
    "interactions of the pool with Append, Slice and Channel views: what a recycled buffer remembers about its previous holder",
    "named element types (type Sample int16) and generic dispatch: reflection, type switches, unsafe.Sizeof, any(x).(T)",
    "garbage collection, finalizers, weak references, unsafe pointers, storage kept alive or released too early",
    "read paths that write: lazily computed or cached header fields touched by Length/Cap/Slice/Channel/Sample when several goroutines read one buffer",
    "very wide or very narrow shapes: hundreds or tens of thousands of channels, one frame, one sample, zero frames with capacity",
    "operands that overlap: converting, appending, reading or writing between two windows of one parent, or a buffer and itself",
    "partial last frames: lengths that are not a multiple of the channel count, after AppendSample, after Append of such a buffer, inside windows",
    "special floating-point values: subnormals, -0, the neighbours of +-1, values beyond float32 range, NaN payloads in floating-to-floating conversion",
    "bit depths and shifts: Scale, MaxSignedValue and clipping at depths 1, 31, 32, 33, 63, 64 and for element types narrower than the depth",
    "Frequency: durations and counts at the extremes (zero, one event, 24 hours, MHz rates, fractional rates), rounding direction, monotonicity",
    "allocation behaviour: an operation that should be allocation-free allocates only for a particular shape, element type, history or every n-th call",
    "striped reads and writes with nil, empty, uneven or over-long nested slices; zero padding; what is returned",
    "panic paths: what has already been changed when a shape mismatch is detected, and what state is left behind after a recovered panic",
    "capacity bookkeeping: capacities that are not multiples of the channel count, alignment after growth, windows at the very end of the capacity",
    "two cooperating sites that each look correct alone (a helper changed in one file and a caller relying on its old contract in another)",
]

FOCUS2 = [
    "lifetimes over many calls on one object: counters that wrap, thresholds reached after thousands of appends or pool cycles, every n-th call behaving differently",
    "sync.Pool semantics: what the New closure captures, allocator values copied before or after first use, pools shared between element types or shapes",
    "a conversion, Read or Write whose source and destination share storage (two windows of one parent, equal or shifted by a few frames)",
    "interleaved Read/Write with caller slices one sample shorter or longer than a whole number of frames; the returned frame count for a partly covered last frame",
    "channel views taken before the parent is appended to, sliced, or recycled by a pool; views of windows that start at a later frame; BufferIndex for unusual arguments",
    "index and size arithmetic that overflows or truncates: channels x frames products, intermediate int32/uint16/uint8 values, negative or huge Slice arguments",
    "Append when the destination must grow and source or destination end in partial frames; the capacity and the old storage afterwards; Append of a buffer's own window",
    "float32 as source or destination of fixed-point conversions: 24 bits of precision against 32-bit depths, rounding at 2^24, the round-trip clauses for float32",
    "monotonicity clauses: order preservation of requantisation across the sign boundary, 'a larger input never gives a smaller code' around 0 and around +-1",
    "narrowing requantisation of negative amplitudes: floor against truncation at -1, at -2^k and at the lowest code (the property allows either neighbouring integer, not more)",
    "degenerate operands inside non-degenerate calls: one empty operand, zero-length windows in the middle of a buffer, early returns that skip a guard or a zero fill",
    "PoolAllocator: Put of buffers that did not come from this pool but have the same total capacity, by-value copies of the allocator, Get after many Puts",
    "concurrent calls that the properties allow: many goroutines allocating, converting from one shared source, using BitDepth/Frequency helpers, getting and putting on one pool",
    "AppendSample and Append through a window that shares storage with its parent: what the parent and sibling windows see, where the window's capacity ends",
    "one element type treated differently from the rest: uintptr, int and uint on this platform, the 8-bit types, named types over float32",
    "striped forms over windows and long buffers: the extent of the zero fill (buffer length, not capacity), members longer than the buffer, the returned count",
    "precision over long spans in Frequency: use of Duration.Seconds(), float32 intermediates, integer division of nanoseconds, rates above 1 MHz, spans near 24 h",
    "defensive copies and laziness: a function that now copies, defers or batches work, so that a write through one view is not (yet) visible through another",
    "zeroing: what Alloc and Put guarantee to be zero (whole capacity), -0 and NaN, storage handed out again by a cache inside Alloc, partial clears",
    "the returned values: counts returned by Read/Write/striped forms/conversions, Length/Capacity/Len/Cap after each mutating call, for shapes where rounding up or down matters",
]

FOCUS3 = [
    "the order of checks and effects inside ONE call: a guard evaluated after a partial effect, a result returned from before a clamp, a length read before it is updated",
    "buffers whose length is much smaller than their capacity, or exactly one frame short of it; spare capacity that holds stale samples from an earlier use",
    "a conversion between two element types of DIFFERENT width where one is a named type; the bit depth each side reports and the scale chosen from the two",
    "windows of windows of windows: offsets accumulated across three or more Slice calls, then a Channel view, Append or conversion through the innermost",
    "Read/ReadStriped/Write/WriteStriped between DIFFERENT element types (float to int, int to float, signed to unsigned, wide to narrow): the value conversion they apply per sample",
    "the second and later uses of one PoolAllocator after a garbage collection emptied its sync.Pool, or after Put of a buffer that was grown and sliced back",
    "conversions whose source is longer than the destination or shorter by less than one frame; which samples of the destination's last partial frame are written",
    "Scale, MaxSignedValue, MinSignedValue, MaxUnsignedValue for depths 0 and 64 and beyond what the type holds, and the callers in the conversions that rely on them",
    "Frequency.Events for durations that are exact multiples of the period versus one nanosecond off; Frequency.Duration for event counts whose product with 1e9 exceeds int64 or 2^53",
    "Alloc with Length > Capacity, zero Length with Capacity, huge Channels with tiny Capacity: the shape, zeroing and independence of what comes back",
    "AppendSample interleaved with Append and Slice on the same header: cached lengths, the partial frame it leaves, and what Channel views report meanwhile",
    "what a panic message or a recovered panic leaves behind in a PoolAllocator or a destination buffer that is then used again normally",
]

def main():
    ap = argparse.ArgumentParser()
    ap.add_argument("--free", action="store_true")
    ap.add_argument("--hints", type=int, default=1, help="which list of focus hints the --free form uses (1, 2 or 3)")
    ap.add_argument("--dir", default="/tmp/wt")
    a = ap.parse_args()
    os.makedirs(a.dir, exist_ok=True)
    props = [json.loads(l) for l in open(os.path.join(VERIF, "properties.jsonl"))]
    prev = {}
    for kind, pat in (("kept", "seeded/C*/meta.json"), ("rejected", "seeded/rejected/C*/meta.json")):
        for f in sorted(glob.glob(os.path.join(VERIF, pat))):
            m = json.load(open(f))
            name = os.path.basename(os.path.dirname(f))
            line = (m.get("summary") or "").replace("\n", " ")
            if kind == "rejected":
                line = "(REJECTED - judged NOT to break the property: %s) %s" % ((m.get("rejected_because") or "")[:160].replace("\n", " "), line)
            prev.setdefault(m["property"], []).append((name, line))
    with open(os.path.join(a.dir, "ALL.properties.txt"), "w") as f:
        f.write("The library is checked against the following 20 properties.\n\n")
        for p in props:
            f.write("Property %s: %s\nStatement: %s\nQuantified over: %s\n\n" % (p["id"], p["title"], p["statement"], p["quantifier"]["text"]))
    with open(os.path.join(a.dir, "ALL.previous.txt"), "w") as f:
        f.write("Changes that were already produced in earlier rounds (do NOT repeat their mechanism or a close variant):\n")
        for pid in sorted(prev):
            for name, line in prev[pid]:
                f.write("- [%s] %s\n" % (name, line[:330]))
    for p in props:
        pid = p["id"]
        with open(os.path.join(a.dir, pid + ".property.txt"), "w") as f:
            f.write("Property %s: %s\nStatement: %s\nQuantified over: %s\nWhy the existing tests cannot settle it: %s\n" % (
                pid, p["title"], p["statement"], p["quantifier"]["text"], p["why_tests_cant"]))
        if not a.free:
            extra = "Earlier attempts for this property (already taken - do NOT repeat their mechanism or a close variant):\n" + \
                "\n".join("- " + line[:420] for _, line in prev.get(pid, []))
            with open(os.path.join(a.dir, pid + ".prompt.txt"), "w") as f:
                f.write(HEAD.format(dir=a.dir, wt=pid) + TASK_ONE.format(dir=a.dir, wt=pid, extra=extra) + TAIL.format(dir=a.dir, wt=pid))
    if a.free:
        for i, focus in enumerate({1: FOCUS, 2: FOCUS2, 3: FOCUS3}[a.hints]):
            wt = "F%02d" % (i + 1)
            with open(os.path.join(a.dir, wt + ".prompt.txt"), "w") as f:
                f.write(HEAD.format(dir=a.dir, wt=wt) + TASK_FREE.format(dir=a.dir, focus=focus) + TAIL.format(dir=a.dir, wt=wt))
    print("prompts written to", a.dir)


if __name__ == "__main__":
    main()
