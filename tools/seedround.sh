#!/bin/bash
# usage: tools/seedround.sh <worktree-dir>...   (each holds seed.patch, seed.json, zz_seed_demo_test.go from a sub-agent)
# For each: names it <property>-<next letter>, gets the FIRST verdict from the harness as committed (a scratch worktree of
# /verif HEAD), then verifies/stores it and runs the current (possibly strengthened) check through tools/seedtest.sh.
set -u
cd /verif
git worktree add --detach /tmp/verif_head HEAD -q || exit 3
for wt in "$@"; do
  [ -f $wt/seed.patch ] || { echo "$wt: no seed.patch"; continue; }
  pid=$(python3 -c "import json;print(json.load(open('$wt/seed.json'))['property'])" 2>/dev/null) || { echo "$wt: no seed.json"; continue; }
  n=$(ls -d seeded/$pid-* seeded/rejected/$pid-* 2>/dev/null | wc -l)
  letter=$(python3 -c "n=$n; print('abcdefghijklmnopqrstuvwxyz'[n] if n < 26 else 'z' + 'abcdefghijklmnopqrstuvwxyz'[n - 26])")
  name=$pid-$letter
  (cd /repo && git apply $wt/seed.patch) || { echo "$wt: patch does not apply"; continue; }
  o=$(cd /tmp/verif_head && timeout 900 ./check $pid quick 2>&1); rc=$?
  git -C /repo checkout -- .
  first="missed"; [ $rc -eq 1 ] && first="detected"; [ $rc -eq 2 ] && first="inconclusive"
  r=$(tools/seedtest.sh $wt $name quick $pid 2>&1 | tail -1)
  python3 - "$name" "$first" <<'PY'
import json,sys
name,first=sys.argv[1:3]
p='/verif/seeded/%s/meta.json'%name
m=json.load(open(p)); m['first_verdict']="quick check of the property, harness as committed before this seed was read: "+first
json.dump(m,open(p,'w'),indent=1)
PY
  echo "$name first=$first now: $r"
done
git worktree remove --force /tmp/verif_head
