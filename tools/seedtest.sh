#!/bin/bash
# usage: tools/seedtest.sh <worktree-dir> <seed-name> <tier> <ID> [more IDs...]
# 1) re-verifies the sub-agent's claims in its worktree, 2) stores the seed under /verif/seeded/<seed-name>/,
# 3) applies it to /repo, runs the given checks, reverts.
set -u
wt=$1; name=$2; tier=$3; shift 3
export GOFLAGS=-mod=mod GOPROXY=off GOSUMDB=off GOTOOLCHAIN=local
out=/verif/seeded/$name
mkdir -p $out
cd $wt || exit 3
[ -f seed.patch ] || { echo "no seed.patch"; exit 3; }
git checkout -q -- go.sum go.mod 2>/dev/null
# state: change applied?
if git apply -R --check seed.patch 2>/dev/null; then :; else git apply seed.patch || { echo "cannot apply seed.patch"; exit 3; }; fi
suite=FAIL; go test -count=1 -skip TestSeedDemo ./... >/dev/null 2>&1 && suite=PASS
# allocation-counting demonstrations (C18) run without -race: the race detector's instrumentation allocates
RACE=-race; case "$name" in C18-*) RACE=;; esac
demo_with=PASS; go test -count=1 $RACE -run TestSeedDemo ./... >/tmp/seed_demo_with.log 2>&1 || demo_with=FAIL
if [ $demo_with = PASS ]; then for i in 1 2 3 4 5; do go test -count=1 $RACE -run TestSeedDemo ./... >/tmp/seed_demo_with.log 2>&1 || { demo_with=FAIL; break; }; done; fi
git apply -R seed.patch
demo_without=FAIL; go test -count=1 $RACE -run TestSeedDemo ./... >/dev/null 2>&1 && demo_without=PASS
git apply seed.patch
git checkout -q -- go.sum go.mod 2>/dev/null
echo "worktree: suite_with_change=$suite demo_with_change=$demo_with demo_without_change=$demo_without"
cp seed.patch $out/patch.diff; cp zz_seed_demo_test.go $out/; cp seed.json $out/agent_seed.json 2>/dev/null
rm -f /tmp/seed_demo_with.log
# run the checks against it
cd /repo; [ -z "$(git status --porcelain)" ] || { echo "repo dirty"; exit 3; }
git apply $out/patch.diff || { echo "patch does not apply to /repo"; exit 3; }
res=""
for id in "$@"; do
  cd /verif; o=$(timeout 1800 ./check $id $tier 2>&1); rc=$?
  echo "$o" | grep -E "^(VIOLATION|INCONCLUSIVE)" | head -2 | cut -c1-220
  echo "$o" | tail -1 | cut -c1-200
  res="$res $id:$tier:exit$rc"
done
git -C /repo checkout -- .
echo "RESULT seed=$name suite=$suite demo_with=$demo_with demo_without=$demo_without checks=[$res ]"
python3 - "$out" "$name" "$suite" "$demo_with" "$demo_without" "$res" <<'PY'
import json,sys,os
out,name,suite,dw,dwo,res=sys.argv[1:7]
meta={}
p=os.path.join(out,'meta.json')
if os.path.exists(p): meta=json.load(open(p))
try: agent=json.load(open(os.path.join(out,'agent_seed.json')))
except Exception: agent={}
meta.update({"seed":name,"property":agent.get("property",name.split('-')[0]),"summary":agent.get("summary",""),"needs":agent.get("needs",""),
  "verified_by_me":{"existing_suite_with_change":suite,"demo_with_change":dw,"demo_without_change":dwo,"how":"tools/seedtest.sh: go test -skip TestSeedDemo; go test -race -run TestSeedDemo with and without the patch, in a scratch worktree"}})
runs=meta.setdefault("check_runs",[])
for r in res.split():
    runs.append(r)
json.dump(meta,open(p,'w'),indent=1)
PY
