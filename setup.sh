#!/bin/bash
# setup_cmd: offline build of the framework (warms the Go build cache and pre-builds every test binary).
set -e
cd "$(dirname "$0")"
export GOFLAGS=-mod=mod GOPROXY=off GOSUMDB=off GOTOOLCHAIN=local
mkdir -p work/bin evidence replays
cd harness
go build ./...
go build -o ../work/bin/fpmerge ./cmd/fpmerge
go vet ./... 
for p in $(python3 -c "
import sys; sys.path.insert(0,'..')
from props import PROPS
for k,v in sorted(PROPS.items()): print(k+':'+v['pkg']+':'+('race' if v.get('race') else 'norace'))"); do
  id=${p%%:*}; rest=${p#*:}; pkg=${rest%%:*}; race=${rest#*:}
  if [ "$race" = race ]; then go test -c -race -o ../work/bin/$id.race.test ./$pkg; else go test -c -o ../work/bin/$id.test ./$pkg; fi
done
echo "setup ok"
