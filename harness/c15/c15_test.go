package c15

import (
	"testing"

	"verif/harness/convtab"
	"verif/harness/kit"
)

func TestRegress(t *testing.T) { Oracle.Regress(t) }
func TestRapid(t *testing.T)   { Oracle.Rapid(t) }
func TestReplay(t *testing.T)  { Oracle.Replay(t) }
func FuzzC15(f *testing.F)     { Oracle.Fuzz(f) }

// TestSweep: the full cross product of entry points x channel-count pairs.
func TestSweep(t *testing.T) {
	env := kit.GetEnv(Property)
	rec := kit.NewRecorder(env, "sweep")
	defer func() { rec.Flush(!t.Failed()) }()
	for c1 := 1; c1 <= 4; c1++ {
		for c2 := 1; c2 <= 4; c2++ {
			if c1 == c2 {
				continue
			}
			// non-empty operands that hold less than one frame (either side, both sides)
			for p1 := 0; p1 < c1; p1++ {
				for p2 := 0; p2 < c2; p2++ {
					for _, e := range convtab.Entries {
						if p1 > 0 {
							Oracle.One(t, env, rec, "sweep", &Case{Entry: "conv", S: e.S.Name, D: e.D.Name, C1: c1, C2: c2, F1: 0, F2: 2, A: p2, Spare: 1, P1: p1, P2: p2})
						}
						if p2 > 0 {
							Oracle.One(t, env, rec, "sweep", &Case{Entry: "conv", S: e.S.Name, D: e.D.Name, C1: c1, C2: c2, F1: 2, F2: 0, A: p1, Spare: 1, P1: p1, P2: p2})
						}
						if p1 > 0 && p2 > 0 {
							Oracle.One(t, env, rec, "sweep", &Case{Entry: "conv", S: e.S.Name, D: e.D.Name, C1: c1, C2: c2, F1: 0, F2: 0, A: 1, Spare: 1, P1: p1, P2: p2})
						}
					}
					for _, tn := range names {
						if p1 > 0 && p2 > 0 {
							Oracle.One(t, env, rec, "sweep", &Case{Entry: "append", S: tn, C1: c1, C2: c2, F1: 0, F2: 0, A: 1, Spare: 1, P1: p1, P2: p2})
						}
					}
				}
			}
			for _, sh := range [][4]int{{2, 2, 0, 0}, {3, 1, 1, 2}, {1, 3, 2, 0}} {
				for _, e := range convtab.Entries {
					Oracle.One(t, env, rec, "sweep", &Case{Entry: "conv", S: e.S.Name, D: e.D.Name, C1: c1, C2: c2, F1: sh[0], F2: sh[1], A: sh[2], Spare: sh[3]})
					Oracle.One(t, env, rec, "sweep", &Case{Entry: "conv", S: e.S.Name, D: e.D.Name, C1: c1, C2: c2, F1: sh[0], F2: sh[1], A: sh[2], Spare: 2, P1: c1 - 1, P2: (c2 - 1) / 2})
				}
				for _, tn := range names {
					Oracle.One(t, env, rec, "sweep", &Case{Entry: "append", S: tn, C1: c1, C2: c2, F1: sh[0], F2: sh[1], A: sh[2], Spare: sh[3]})
					Oracle.One(t, env, rec, "sweep", &Case{Entry: "append", S: tn, C1: c1, C2: c2, F1: sh[0], F2: sh[1], A: sh[2], Spare: 40})
					for p1 := 0; p1 < c1; p1++ { // operands ending in a partial frame
						for p2 := 0; p2 < c2; p2++ {
							if p1+p2 > 0 {
								Oracle.One(t, env, rec, "sweep", &Case{Entry: "append", S: tn, C1: c1, C2: c2, F1: sh[0], F2: sh[1], A: sh[2], Spare: 2, P1: p1, P2: p2})
							}
						}
					}
				}
			}
		}
		for n := 0; n <= 5; n++ {
			if n == c1 {
				continue
			}
			for _, s := range names {
				for _, d := range names {
					for _, entry := range []string{"readStriped", "writeStriped"} {
						Oracle.One(t, env, rec, "sweep", &Case{Entry: entry, S: s, D: d, C1: c1, N: n, F1: 2, F2: 2, A: 1, Spare: 1})
						if s == d { // outer slices with 1..3 further elements behind their length
							for f2 := 3; f2 <= 5; f2++ {
								Oracle.One(t, env, rec, "sweep", &Case{Entry: entry, S: s, D: d, C1: c1, N: n, F1: 2, F2: f2, A: 0, Spare: 0})
							}
						}
					}
				}
			}
		}
		// a buffer grown to a partial last frame offered to a pool of the whole frames below its length
		if c1 >= 2 {
			for _, tn := range names {
				for pre := 1; pre < c1; pre++ {
					for srcN := 1; srcN <= 40; srcN++ {
						Oracle.One(t, env, rec, "sweep", &Case{Entry: "put", S: tn, C1: c1, C2: 1, F1: 1, PutKind: "grownPartial", P1: pre, F2: srcN, PrePut: srcN%2 == 0})
					}
				}
			}
		}
		for _, tn := range names {
			for _, pk := range []string{"otherK", "smallerK", "otherC", "laterFrame", "grown"} {
				for _, pre := range []bool{false, true} {
					for _, lk := range [][2]int{{0, 3}, {2, 3}, {3, 3}, {0, 8}} {
						for c2 := 1; c2 <= 4; c2++ {
							if c2 == c1 || (pk != "otherC" && c2 != (c1%4)+1) {
								continue
							}
							Oracle.One(t, env, rec, "sweep", &Case{Entry: "put", S: tn, C1: c1, C2: c2, F1: lk[1], L: lk[0], PutKind: pk, PrePut: pre})
							if pre && lk[0] == 0 {
								Oracle.One(t, env, rec, "sweep", &Case{Entry: "put", S: tn, C1: c1, C2: c2, F1: lk[1], L: lk[0], PutKind: pk, Many: 20 + 15*c1})
							}
						}
					}
				}
			}
		}
	}
	rec.Exhaustive("all 13 guarded entry points: 169 conversions and Append (13 types) x every ordered pair of different channel counts 1..4 x 3 shapes; ReadStriped/WriteStriped x 169 type pairs x C 1..4 x slice counts 0..5 != C; Put x 13 types x 5 mismatch kinds x with/without a pooled buffer x 4 allocator shapes", true)
}
