// Package c15 decides property C15: shape mismatches are rejected (panic)
// before anything is modified.
package c15

import (
	"fmt"

	"pgregory.net/rapid"
	"pipelined.dev/signal"
	"verif/harness/convtab"
	"verif/harness/kit"
)

const Property = "C15"

// Case describes one guarded call with mismatching shapes.
//
//	conv:         conversion S->D, source with C1 channels, destination with C2 != C1
//	append:       Buffer[S].Append, destination C1 channels, source C2 != C1
//	readStriped:  ReadStriped(Buffer[S] with C1 channels, [][]D with N != C1 slices)
//	writeStriped: WriteStriped([][]S with N != C1 slices, Buffer[D] with C1 channels)
//	put:          PoolAllocator[S]{C1, L, K}.Put(buffer with a different total capacity), PutKind says which
type Case struct {
	Entry   string `json:"entry"`
	S       string `json:"s"`
	D       string `json:"d,omitempty"`
	C1      int    `json:"c1"`
	C2      int    `json:"c2,omitempty"`
	N       int    `json:"n,omitempty"`
	F1      int    `json:"f1"` // frames of the first operand's window
	F2      int    `json:"f2"` // frames of the second operand's window / length of the slices
	A       int    `json:"a"`  // window offset (frames) inside the roots
	Spare   int    `json:"spare"`
	L       int    `json:"l,omitempty"`
	P1      int    `json:"p1,omitempty"`      // conv/append: extra samples appended to the first operand (a partial last frame), < C1
	P2      int    `json:"p2,omitempty"`      // conv/append: same for the second operand, < C2
	PutKind string `json:"putKind,omitempty"` // otherK | otherC | laterFrame | grown
	Many    int    `json:"many,omitempty"`    // put: buffers checked out at once and all put back before the mismatching Put
	PrePut  bool   `json:"prePut,omitempty"`
}

var stripedTable = map[string]func(*Case) kit.Result{}

func reg[S, B signal.SignalTypes](s, b string) { stripedTable[s+"/"+b] = striped[S, B] }

func regRow[S signal.SignalTypes](s string) {
	reg[S, int](s, "int")
	reg[S, int8](s, "int8")
	reg[S, int16](s, "int16")
	reg[S, int32](s, "int32")
	reg[S, int64](s, "int64")
	reg[S, uint](s, "uint")
	reg[S, uint8](s, "uint8")
	reg[S, uint16](s, "uint16")
	reg[S, uint32](s, "uint32")
	reg[S, uint64](s, "uint64")
	reg[S, uintptr](s, "uintptr")
	reg[S, float32](s, "float32")
	reg[S, float64](s, "float64")
}

func init() {
	regRow[int]("int")
	regRow[int8]("int8")
	regRow[int16]("int16")
	regRow[int32]("int32")
	regRow[int64]("int64")
	regRow[uint]("uint")
	regRow[uint8]("uint8")
	regRow[uint16]("uint16")
	regRow[uint32]("uint32")
	regRow[uint64]("uint64")
	regRow[uintptr]("uintptr")
	regRow[float32]("float32")
	regRow[float64]("float64")
}

var names = kit.BuiltinNames()

func isName(n string) bool {
	for _, x := range names {
		if x == n {
			return true
		}
	}
	return false
}

type operand struct {
	root, win kit.AnyBuf
	model     []kit.Val
	rh, wh    kit.Hdr
}

func mkOperand(name string, C, a, frames, spare, partial int) *operand {
	o := &operand{}
	if partial > 0 && spare == 0 {
		spare = 1
	}
	o.root = kit.AnyRoot(name, C, a+frames+spare)
	o.win = o.root.Slice(a, a+frames)
	for k := 0; k < partial; k++ {
		o.win.AppendSample(kit.IV(kit.PartialVal(k)))
	}
	o.model = o.root.Snap()
	o.rh, o.wh = o.root.Hdr(), o.win.Hdr()
	return o
}

func (o *operand) unchanged(what string) string {
	if d := kit.DiffVals(what+" storage", o.root.Snap(), o.model); d != "" {
		return d
	}
	if o.root.Hdr() != o.rh || o.win.Hdr() != o.wh {
		return fmt.Sprintf("%s header changed: %+v (was %+v)", what, o.win.Hdr(), o.wh)
	}
	return ""
}

func Check(c *Case) (res kit.Result) {
	if c.C1 < 1 || c.C1 > 16 || c.F1 < 0 || c.F2 < 0 || c.A < 0 || c.Spare < 0 || c.F1 > 4096 || c.F2 > 4096 || c.A > 64 || c.Spare > 64 || !isName(c.S) {
		return
	}
	switch c.Entry {
	case "conv":
		e := convtab.Lookup(c.S, c.D)
		if e == nil || c.C2 < 1 || c.C2 > 16 || c.C2 == c.C1 {
			return
		}
		if c.P1 < 0 || c.P1 >= c.C1 || c.P2 < 0 || c.P2 >= c.C2 || c.F1*c.C1+c.P1 == 0 || c.F2*c.C2+c.P2 == 0 {
			return // the property speaks of non-empty buffers
		}
		if c.F1 == 0 || c.F2 == 0 {
			res.Class("operandHoldsLessThanOneFrame")
		}
		src := mkOperand(c.S, c.C1, c.A, c.F1, c.Spare, c.P1)
		dst := mkOperand(c.D, c.C2, c.A, c.F2, c.Spare, c.P2)
		panicked, _ := kit.Try(func() { e.Convert(src.win, dst.win) })
		what := fmt.Sprintf("%s with %d-channel source (%d frames) and %d-channel destination (%d frames)", e, c.C1, c.F1, c.C2, c.F2)
		if !panicked {
			res.Failf("%s did not panic", what)
			return
		}
		if d := src.unchanged("source"); d != "" {
			res.Failf("%s panicked after modifying: %s", what, d)
			return
		}
		if d := dst.unchanged("destination"); d != "" {
			res.Failf("%s panicked after modifying: %s", what, d)
			return
		}
		// nothing was modified - so both operands still work in calls with matching shapes
		okDst := kit.AllocAny(c.D, signal.Allocator{Channels: c.C1, Length: c.F1 + 1, Capacity: c.F1 + 1})
		okSrc := kit.AnyRoot(c.S, c.C2, c.F2+1)
		var r1, r2 int
		if p, v := kit.Try(func() { r1 = e.Convert(src.win, okDst); r2 = e.Convert(okSrc, dst.win) }); p {
			res.Failf("%s was rejected, and afterwards a conversion of the same operands with matching partners panicked: %v", what, v)
			return
		}
		if w1, w2 := kit.CeilDiv(src.wh.Len, c.C1), kit.CeilDiv(dst.wh.Len, c.C2); r1 != w1 || r2 != w2 {
			res.Failf("%s was rejected; afterwards conversions of the same operands with matching partners returned %d and %d, want %d and %d", what, r1, r2, w1, w2)
			return
		}
		res.Class("operandsUsedAgainAfterTheRejection")
		res.Class("conv:" + e.Fn)
	case "append":
		if c.C2 < 1 || c.C2 > 16 || c.C2 == c.C1 {
			return
		}
		if c.P1 < 0 || c.P1 >= c.C1 || c.P2 < 0 || c.P2 >= c.C2 || c.F1*c.C1+c.P1 == 0 || c.F2*c.C2+c.P2 == 0 {
			return // the property speaks of non-empty buffers
		}
		if c.F1 == 0 || c.F2 == 0 {
			res.Class("operandHoldsLessThanOneFrame")
		}
		dst := mkOperand(c.S, c.C1, c.A, c.F1, c.Spare, c.P1)
		src := mkOperand(c.S, c.C2, c.A, c.F2, c.Spare, c.P2)
		if c.P1 > 0 || c.P2 > 0 {
			res.Class("partialLastFrame")
		}
		panicked, _ := kit.Try(func() { dst.win.Append(src.win) })
		what := fmt.Sprintf("Append of a %d-channel source (%d frames) to a %d-channel destination (%d frames, %d spare)", c.C2, c.F2, c.C1, c.F1, c.Spare)
		if !panicked {
			res.Failf("%s did not panic", what)
			return
		}
		if d := dst.unchanged("destination"); d != "" {
			res.Failf("%s panicked after modifying: %s", what, d)
			return
		}
		if d := src.unchanged("source"); d != "" {
			res.Failf("%s panicked after modifying: %s", what, d)
			return
		}
		// nothing was modified - so the same destination still takes a source with matching channels
		// (and the rejected source is still a destination for one of its own shape)
		for i, o := range []*operand{dst, src} {
			C := []int{c.C1, c.C2}[i]
			more := kit.AnyRoot(c.S, C, 1)
			before := o.win.Hdr().Len
			if p, v := kit.Try(func() { o.win.Append(more) }); p {
				res.Failf("%s was rejected, and afterwards an Append of a matching %d-channel frame to the %s panicked: %v", what, C, []string{"same destination", "rejected source"}[i], v)
				return
			}
			if h := o.win.Hdr(); h.Len != before+C || !kit.SameVal(o.win.Get(before), more.Get(0)) {
				res.Failf("%s was rejected; a matching Append afterwards left the %s with %d samples (was %d, one frame of %d appended)", what, []string{"same destination", "rejected source"}[i], h.Len, before, C)
				return
			}
		}
		res.Class("operandsUsedAgainAfterTheRejection")
		res.Class("append")
	case "readStriped", "writeStriped":
		f, ok := stripedTable[c.S+"/"+c.D]
		if !ok || c.N < 0 || c.N > 16 || c.N == c.C1 {
			return
		}
		return f(c)
	case "put":
		return checkPut(c)
	}
	return
}

func striped[S, B signal.SignalTypes](c *Case) (res kit.Result) {
	// buffer type is c.S for readStriped (slices of c.D) and c.D for writeStriped (slices of c.S);
	// the generic parameters are (S = c.S, B = c.D) in both cases.
	if c.Entry == "readStriped" {
		return stripedRun[S, B](c, true)
	}
	return stripedRun[B, S](c, false)
}

// stripedRun: BT is the buffer's element type, ST the slices'.
func stripedRun[BT, ST signal.SignalTypes](c *Case, read bool) (res kit.Result) {
	C := c.C1
	root := kit.Root[BT](C, c.A+c.F1+c.Spare)
	model := kit.RootModel[BT](C, c.A+c.F1+c.Spare)
	w := root.Slice(c.A, c.A+c.F1)
	wh, rh := kit.HdrOf(w), kit.HdrOf(root)
	// the outer slice may have spare capacity, with further per-channel slices behind its
	// length that the caller did not pass: they are not the library's to touch either
	hidden := (c.F2 + c.N) % 4 // 0..3 extra elements behind len
	outer := make([][]ST, c.N+hidden)
	for i := c.N; i < len(outer); i++ {
		outer[i] = make([]ST, c.F2+1)
		for k := range outer[i] {
			outer[i][k] = ST(kit.OutSentinel(i*5 + k))
		}
	}
	hiddenKeep := make([][]ST, hidden)
	for i := range hiddenKeep {
		hiddenKeep[i] = append([]ST(nil), outer[c.N+i]...)
	}
	sl := outer[:c.N]
	keep := make([][]ST, c.N)
	for i := range sl {
		if (i+c.F2)%4 == 3 {
			continue // a nil member
		}
		sl[i] = make([]ST, c.F2)
		for k := range sl[i] {
			sl[i][k] = ST(kit.OutSentinel(i*3 + k))
		}
		keep[i] = append([]ST(nil), sl[i]...)
	}
	var panicked bool
	var what string
	if read {
		what = fmt.Sprintf("ReadStriped of a %d-channel buffer (%d frames) into %d slices", C, c.F1, c.N)
		panicked, _ = kit.Try(func() { signal.ReadStriped(w, sl) })
	} else {
		what = fmt.Sprintf("WriteStriped of %d slices into a %d-channel buffer (%d frames)", c.N, C, c.F1)
		panicked, _ = kit.Try(func() { signal.WriteStriped(sl, w) })
	}
	if !panicked {
		res.Failf("%s did not panic", what)
		return
	}
	if c.N == 0 {
		// no slices at all can also be spelled as a nil outer slice
		var none [][]ST
		if read {
			panicked, _ = kit.Try(func() { signal.ReadStriped(w, none) })
		} else {
			panicked, _ = kit.Try(func() { signal.WriteStriped(none, w) })
		}
		if !panicked {
			res.Failf("%s (a nil outer slice) did not panic", what)
			return
		}
		res.Class("nilOuterSlice")
	}
	if d := kit.DiffSlice("buffer storage", kit.Snap(root), model); d != "" {
		res.Failf("%s panicked after modifying: %s", what, d)
		return
	}
	if kit.HdrOf(w) != wh || kit.HdrOf(root) != rh {
		res.Failf("%s panicked after changing the buffer's shape", what)
		return
	}
	for i := range sl {
		if d := kit.DiffSlice(fmt.Sprintf("caller's slice %d", i), sl[i], keep[i]); d != "" {
			res.Failf("%s panicked after modifying: %s", what, d)
			return
		}
	}
	for i := range hiddenKeep {
		if d := kit.DiffSlice(fmt.Sprintf("slice %d behind the length of the caller's outer slice", c.N+i), outer[c.N+i], hiddenKeep[i]); d != "" {
			res.Failf("%s: %s", what, d)
			return
		}
	}
	if hidden > 0 {
		res.Class("outerSliceWithSpareCapacity")
	}
	// nothing was modified - so the same buffer still works with the right number of slices
	right := make([][]ST, C)
	for i := range right {
		right[i] = make([]ST, c.F1)
	}
	var ret int
	if p, v := kit.Try(func() {
		if read {
			ret = signal.ReadStriped(w, right)
		} else {
			ret = signal.WriteStriped(right, w)
		}
	}); p {
		res.Failf("%s was rejected, and afterwards the same call with %d slices panicked: %v", what, C, v)
		return
	}
	if ret != c.F1 {
		res.Failf("%s was rejected; afterwards the same call with %d slices of %d returned %d", what, C, c.F1, ret)
		return
	}
	res.Class("operandsUsedAgainAfterTheRejection")
	res.Class(c.Entry)
	return
}

func checkPut(c *Case) (res kit.Result) {
	C, L, K := c.C1, c.L, c.F1
	if L < 0 || L > K || K < 1 {
		return
	}
	var bad kit.AnyBuf
	if c.PutKind == "grownPartial" {
		// a buffer that a growing Append left with a partial last frame: P1 single samples, then
		// F2 more from a source. The pool's total capacity is the whole frames below its length,
		// so the buffer holds more samples than the pool's buffers can: its capacity differs.
		if C < 2 || c.P1 < 1 || c.P1 >= C || c.F2 < 1 || c.F2 > 200 {
			return
		}
		g := kit.AllocAny(c.S, signal.Allocator{Channels: C, Length: 0, Capacity: 1})
		for k := 0; k < c.P1; k++ {
			g.AppendSample(kit.IV(int64(1 + k)))
		}
		src := kit.AllocAny(c.S, signal.Allocator{Channels: C, Length: 0, Capacity: c.F2/C + 1})
		for k := 0; k < c.F2; k++ {
			src.AppendSample(kit.IV(int64(2 + k%80)))
		}
		g.Append(src)
		n := c.P1 + c.F2
		if g.Len() != n || n%C == 0 || n/C < 1 {
			return
		}
		bad, K, L = g, n/C, 0
	}
	al := signal.Allocator{Channels: C, Length: L, Capacity: K}
	pool := kit.NewAnyPool(c.S, al)
	switch c.PutKind {
	case "grownPartial":
	case "otherK":
		k2 := K + 1 + c.Spare
		bad = kit.AllocAny(c.S, signal.Allocator{Channels: C, Length: kit.Min(L, k2), Capacity: k2})
	case "smallerK":
		if K < 2 {
			return
		}
		bad = kit.AllocAny(c.S, signal.Allocator{Channels: C, Length: 0, Capacity: K - 1})
	case "otherC":
		if c.C2 < 1 || c.C2 == C || (c.C2*K)%C == 0 && c.C2*K == C*K {
			return
		}
		bad = kit.AllocAny(c.S, signal.Allocator{Channels: c.C2, Length: L, Capacity: K})
	case "laterFrame":
		if K < 2 {
			return
		}
		g := pool.Get()
		bad = g.Slice(1, K) // a window from a later frame: total capacity C*(K-1)
	case "grown":
		g := pool.Get()
		big := kit.AllocAny(c.S, signal.Allocator{Channels: C, Length: K + 1, Capacity: K + 1})
		g.Append(big) // beyond capacity: the buffer leaves the pool's capacity class
		if g.Hdr().Cap == C*K {
			return
		}
		bad = g
	default:
		return
	}
	// recognisable contents over the rejected buffer's whole capacity
	full := bad.Slice(0, bad.Hdr().Capacity)
	if c.PutKind == "grownPartial" {
		full = bad // its samples (all of them, including the partial last frame) are the contents
	}
	for i := 0; i < full.Len(); i++ {
		full.Set(i, kit.IV(int64(1+i%90)))
	}
	before, bh := full.Snap(), bad.Hdr()
	if c.PrePut {
		pool.Put(pool.Get()) // a legitimate, untouched buffer sits in the pool
	}
	if c.Many < 0 || c.Many > 100 {
		return kit.Result{}
	}
	if c.Many > 0 {
		// a burst: Many buffers checked out at once and all put back, so that the pool holds many
		var burst []kit.AnyBuf
		for i := 0; i < c.Many; i++ {
			burst = append(burst, pool.Get())
		}
		for _, b := range burst {
			pool.Put(b)
		}
		res.Class("putAfterABurstOfLegitimatePuts")
	}
	what := fmt.Sprintf("Put(%s buffer: %d ch, cap %d samples) into a pool of {%d ch, length %d, capacity %d}", c.PutKind, bh.Channels, bh.Cap, C, L, K)
	trueCap := bh.Cap
	if _, rc, ok := kit.RawLenCap(bad.Raw()); ok {
		trueCap = rc // the storage itself, not what Cap() says about it
	}
	if trueCap == C*K && bh.Len <= C*K {
		return // not a mismatch after all
	}
	panicked, _ := kit.Try(func() { pool.Put(bad) })
	if !panicked {
		res.Failf("%s did not panic", what)
		return
	}
	if d := kit.DiffVals("rejected buffer", full.Snap(), before); d != "" {
		res.Failf("%s panicked after modifying the buffer: %s", what, d)
		return
	}
	if bad.Hdr() != bh {
		res.Failf("%s panicked after changing the buffer's shape to %+v (was %+v)", what, bad.Hdr(), bh)
		return
	}
	// offered again (a caller that recovered and retries): every rejected Put panics, and still nothing changes
	if again, _ := kit.Try(func() { pool.Put(bad) }); !again {
		res.Failf("%s panicked the first time, but the same Put repeated did not panic", what)
		return
	}
	if d := kit.DiffVals("rejected buffer after the second rejected Put", full.Snap(), before); d != "" || bad.Hdr() != bh {
		res.Failf("%s: the second rejected Put modified the buffer: %s %+v", what, d, bad.Hdr())
		return
	}
	// the pool must not have swallowed it: the next buffers are of the allocator's shape and zeroed
	want := kit.Hdr{Len: C * L, Cap: C * K, Length: L, Capacity: K, Channels: C, BitDepth: kit.Info(c.S).Bits}
	for g := 0; g < 3; g++ {
		b := pool.Get()
		if b.Hdr() != want {
			res.Failf("%s: Get #%d after the rejected Put returned %+v, want %+v", what, g, b.Hdr(), want)
			return
		}
		for i, v := range b.Slice(0, K).Snap() {
			if v.String() != "0" {
				res.Failf("%s: Get #%d after the rejected Put returned a buffer with sample %d = %s", what, g, i, v)
				return
			}
		}
	}
	res.Class("put:" + c.PutKind)
	return
}

func FP(c *Case) uint64 {
	h := kit.NewHasher()
	h.Str(c.Entry)
	h.Str(c.S)
	h.Str(c.D)
	h.Str(c.PutKind)
	b := 0
	if c.PrePut {
		b = 1
	}
	h.Ints([]int{c.C1, c.C2, c.N, c.F1, c.F2, c.A, c.Spare, c.L, b, c.P1, c.P2, c.Many})
	return h.Sum()
}

func Gen(t *rapid.T) *Case {
	c := &Case{}
	c.Entry = rapid.SampledFrom([]string{"conv", "conv", "append", "readStriped", "writeStriped", "put"}).Draw(t, "entry")
	c.C1 = rapid.IntRange(1, 8).Draw(t, "c1")
	c.F1 = rapid.IntRange(1, 40).Draw(t, "f1")
	c.F2 = rapid.IntRange(1, 40).Draw(t, "f2")
	c.A = rapid.IntRange(0, 3).Draw(t, "a")
	c.Spare = rapid.IntRange(0, 3).Draw(t, "spare")
	other := func(l string, lo, hi, not int) int {
		v := rapid.IntRange(lo, hi-1).Draw(t, l)
		if v >= not {
			v++
		}
		return v
	}
	switch c.Entry {
	case "conv":
		e := convtab.Entries[rapid.IntRange(0, len(convtab.Entries)-1).Draw(t, "inst")]
		c.S, c.D = e.S.Name, e.D.Name
		c.C2 = other("c2", 1, 8, c.C1)
		if rapid.Bool().Draw(t, "partial") {
			c.P1 = rapid.IntRange(0, c.C1-1).Draw(t, "p1")
			c.P2 = rapid.IntRange(0, c.C2-1).Draw(t, "p2")
			// non-empty operands that hold less than one frame
			if c.P1 > 0 && rapid.IntRange(0, 2).Draw(t, "lessThanAFrame1") == 0 {
				c.F1 = 0
			}
			if c.P2 > 0 && rapid.IntRange(0, 2).Draw(t, "lessThanAFrame2") == 0 {
				c.F2 = 0
			}
		}
	case "append":
		c.S = rapid.SampledFrom(names).Draw(t, "type")
		c.C2 = other("c2", 1, 8, c.C1)
		if rapid.Bool().Draw(t, "partial") {
			c.P1 = rapid.IntRange(0, c.C1-1).Draw(t, "p1")
			c.P2 = rapid.IntRange(0, c.C2-1).Draw(t, "p2")
			// non-empty operands that hold less than one frame
			if c.P1 > 0 && rapid.IntRange(0, 2).Draw(t, "lessThanAFrame1") == 0 {
				c.F1 = 0
			}
			if c.P2 > 0 && rapid.IntRange(0, 2).Draw(t, "lessThanAFrame2") == 0 {
				c.F2 = 0
			}
		}
	case "readStriped", "writeStriped":
		c.S = rapid.SampledFrom(names).Draw(t, "s")
		c.D = rapid.SampledFrom(names).Draw(t, "d")
		c.N = other("n", 0, 9, c.C1)
	case "put":
		c.S = rapid.SampledFrom(names).Draw(t, "type")
		c.PutKind = rapid.SampledFrom([]string{"otherK", "smallerK", "otherC", "laterFrame", "grown", "grownPartial"}).Draw(t, "putKind")
		if c.PutKind == "grownPartial" {
			c.C1 = rapid.IntRange(2, 8).Draw(t, "gpC")
			c.P1 = rapid.IntRange(1, c.C1-1).Draw(t, "gpPre")
			c.F2 = rapid.IntRange(1, 60).Draw(t, "gpSrc")
		}
		c.C2 = other("c2", 1, 8, c.C1)
		c.L = rapid.IntRange(0, c.F1).Draw(t, "l")
		c.PrePut = rapid.Bool().Draw(t, "prePut")
		if rapid.IntRange(0, 3).Draw(t, "manySel") == 0 {
			c.Many = rapid.SampledFrom([]int{2, 9, 17, 31, 32, 33, 40, 65, 100}).Draw(t, "many")
		}
	}
	return c
}

var Oracle = kit.Oracle[Case]{Property: Property, Gen: Gen, Check: Check, FP: FP}
