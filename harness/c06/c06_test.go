package c06

import (
	"runtime"
	"sync/atomic"
	"testing"

	"verif/harness/convtab"
	"verif/harness/kit"
	"verif/harness/numkit"
)

func TestRegress(t *testing.T) { Oracle.Regress(t) }
func TestRapid(t *testing.T)   { Oracle.Rapid(t) }
func TestReplay(t *testing.T)  { Oracle.Replay(t) }
func FuzzC06(f *testing.F)     { Oracle.Fuzz(f) }

// sweepRange converts every amplitude in [from, from+n) in order and applies
// the order oracle; it returns the first offending adjacent pair.
func sweepRange(e *convtab.Entry, blk convtab.BlockFn, in, out []int64, from int64, n int) (bad bool, a1, a2 int64) {
	in, out = in[:n], out[:n]
	for i := range in {
		in[i] = from + int64(i)
	}
	blk(in, nil, out, nil)
	for i := 1; i < n; i++ {
		if out[i] < out[i-1] {
			return true, in[i-1], in[i]
		}
	}
	// the same range in descending order must give the same result for every value
	rin, rout := make([]int64, n), make([]int64, n)
	for i := range rin {
		rin[i] = in[n-1-i]
	}
	blk(rin, nil, rout, nil)
	for i := range rin {
		if rout[i] != out[n-1-i] {
			if i > 0 {
				return true, rin[i], rin[i-1]
			}
			return true, rin[i], rin[i]
		}
	}
	return false, 0, 0
}

// TestSweep: every code of every 8- and 16-bit source (quick and thorough) and
// of every 32-bit source (thorough), in amplitude order, for all destinations;
// boundary-dense codes for 32-bit (quick) and 64-bit sources.
func TestSweep(t *testing.T) {
	env := kit.GetEnv(Property)
	rec := kit.NewRecorder(env, "sweep")
	defer func() { rec.Flush(!t.Failed()) }()
	longOnes := 0
	for _, e := range Pairs {
		ds := e.S.Bits
		// reference levels and boundary-dense codes through the case oracle
		Oracle.One(t, env, rec, "sweep", &Case{S: e.S.Name, D: e.D.Name, Amps: bAmps[ds]})
		for i, pad := range []int{1024, 4099} {
			Oracle.One(t, env, rec, "sweep", &Case{S: e.S.Name, D: e.D.Name, Amps: bAmps[ds], Pad: pad, Fix: 1 + i})
		}
		for _, ch := range []int{2, 3, 8} {
			Oracle.One(t, env, rec, "sweep", &Case{S: e.S.Name, D: e.D.Name, Amps: bAmps[ds], Ch: ch})
		}
		// long and wide at once: more channels than 8 and more samples than 2^15 / 2^16
		Oracle.One(t, env, rec, "sweep", &Case{S: e.S.Name, D: e.D.Name, Amps: bAmps[ds], Pad: 40000, Ch: 12})
		Oracle.One(t, env, rec, "sweep", &Case{S: e.S.Name, D: e.D.Name, Amps: bAmps[ds], Pad: 70001, Ch: 64, Fix: 1})
		if longOnes++; longOnes%8 == 1 { // every eighth pair: one call converting more than 2^17 samples
			Oracle.One(t, env, rec, "sweep", &Case{S: e.S.Name, D: e.D.Name, Amps: bAmps[ds], Pad: 150001, Ch: 2})
		}
		Oracle.One(t, env, rec, "sweep", &Case{S: e.S.Name, D: e.D.Name, Amps: bAmps[ds], Fix: 3}) // buffers recycled through a pool
		Oracle.One(t, env, rec, "sweep", &Case{S: e.S.Name, D: e.D.Name, Amps: bAmps[ds], Fix: 4}) // buffers grown out of an empty window by Append
		Oracle.One(t, env, rec, "sweep", &Case{S: e.S.Name, D: e.D.Name, Amps: bAmps[ds], Fix: 5}) // the source was the destination of a conversion before, converted through a window cut then
		Oracle.One(t, env, rec, "sweep", &Case{S: e.S.Name, D: e.D.Name, Amps: bAmps[ds], Fix: 6}) // source two frames longer than the destination
		Oracle.One(t, env, rec, "sweep", &Case{S: e.S.Name, D: e.D.Name, Amps: bAmps[ds], Fix: 7}) // destination two frames longer than the source
		Oracle.One(t, env, rec, "sweep", &Case{S: e.S.Name, D: e.D.Name, Amps: bAmps[ds], Fix: 10}) // output in pieces: two adjacent destination windows, the source goes on beyond the first
		Oracle.One(t, env, rec, "sweep", &Case{S: e.S.Name, D: e.D.Name, Amps: bAmps[ds], Fix: 11}) // same-type instantiations: source and destination are adjacent windows of one parent
		Oracle.One(t, env, rec, "sweep", &Case{S: e.S.Name, D: e.D.Name, Amps: bAmps[ds], Fix: 8}) // the destination buffer is shared with every other instantiation of this destination type
		Oracle.One(t, env, rec, "sweep", &Case{S: e.S.Name, D: e.D.Name, Amps: bAmps[ds], Fix: 9}) // the source was converted into a shorter destination before
		if ds == 8 {                                                                               // every 8-bit code, alone in short buffers and repeated in long ones
			all := make([]int64, 256)
			for i := range all {
				all[i] = int64(i) - 128
			}
			for _, pad := range []int{0, 1024, 4353, 70001} {
				Oracle.One(t, env, rec, "sweep", &Case{S: e.S.Name, D: e.D.Name, Amps: all, Pad: pad})
			}
			for _, ch := range []int{2, 3, 5} { // the same codes interleaved over several channels, in ascending and descending order
				rev := make([]int64, len(all))
				for i := range all {
					rev[i] = all[len(all)-1-i]
				}
				Oracle.One(t, env, rec, "sweep", &Case{S: e.S.Name, D: e.D.Name, Amps: all, Ch: ch})
				Oracle.One(t, env, rec, "sweep", &Case{S: e.S.Name, D: e.D.Name, Amps: rev, Ch: ch, Fix: 1})
			}
			for i := range all {
				Oracle.One(t, env, rec, "sweep", &Case{S: e.S.Name, D: e.D.Name, Amps: all[i : i+1]})
			}
		}
		full := ds <= 16 || (ds == 32 && env.Thorough())
		if !full {
			continue
		}
		total := uint64(1) << uint(ds)
		const chunk = 1 << 20
		var failed atomic.Bool
		var fa1, fa2 int64
		numkit.Parallel(total, chunk, runtime.NumCPU(), func(lo, hi uint64) bool {
			blk := e.NewBlock()
			n := int(hi - lo)
			from := numkit.Lo(ds) + int64(lo)
			extra := 0
			if lo > 0 { // overlap by one so that chunk boundaries are ordered too
				from--
				extra = 1
			}
			in, out := make([]int64, n+extra), make([]int64, n+extra)
			if bad, a1, a2 := sweepRange(e, blk, in, out, from, n+extra); bad {
				if failed.CompareAndSwap(false, true) {
					fa1, fa2 = a1, a2
				}
				return false
			}
			return true
		})
		if failed.Load() {
			Oracle.One(t, env, rec, "sweep", &Case{S: e.S.Name, D: e.D.Name, Amps: []int64{fa1, fa2}})
			t.Fatalf("HARNESS-ERROR: sweep found an inversion at %d,%d in %s that the case oracle does not reproduce", fa1, fa2, e)
		}
		nt := int64(total)
		if e.S.Name == e.D.Name {
			nt -= 5
		}
		rec.Bulk("exhaustive:"+e.Fn, int64(total), nt)
		rec.Sample(map[string]any{"s": e.S.Name, "d": e.D.Name, "amps": "every amplitude of the source format in increasing order", "count": total})
	}
	rec.Exhaustive("every code of int8/uint8/int16/uint16 sources x 11 destinations", true)
	rec.Exhaustive("every code of int32/uint32 sources x 11 destinations", env.Thorough())
}
