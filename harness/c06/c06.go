// Package c06 decides property C06: fixed-point requantisation preserves order
// and the reference levels (lowest, zero-amplitude, highest).
package c06

import (
	"sort"

	"pgregory.net/rapid"
	"verif/harness/convtab"
	"verif/harness/kit"
	"verif/harness/numkit"
)

const Property = "C06"

// Case: source amplitudes (code for signed, code-2^(d-1) for unsigned formats)
// converted from element type S to D.
type Case struct {
	S    string  `json:"s"`
	D    string  `json:"d"`
	Amps []int64 `json:"amps"`
	Pad  int     `json:"pad,omitempty"` // the amplitudes are repeated cyclically up to this buffer length
	Fix  int     `json:"fix,omitempty"` // source construction order, see convtab.Entry.NewBlockFix
	Ch   int     `json:"ch,omitempty"`  // channel count of the buffers (0 = 1): the values are interleaved over several channels
}

// Pairs are the 121 fixed-to-fixed instantiations.
var Pairs = convtab.Select("SignedAsSigned", "SignedAsUnsigned", "UnsignedAsSigned", "UnsignedAsUnsigned")

func pinned(a int64, d int) bool {
	lo, hi := numkit.Lo(d), numkit.Hi(d)
	return a == lo || a == hi || a == 0 || a == hi/2 || a == lo/2
}

func Check(c *Case) (res kit.Result) {
	e := convtab.Lookup(c.S, c.D)
	if e == nil || e.S.Kind == kit.Float || e.D.Kind == kit.Float || len(c.Amps) > 1<<20 {
		return
	}
	ds, dd := e.S.Bits, e.D.Bits
	lo, hi := numkit.Lo(ds), numkit.Hi(ds)
	if c.Pad < 0 || c.Pad > 1<<20 || c.Fix < 0 || c.Fix > convtab.MaxFix || c.Ch < 0 || c.Ch > 64 {
		return
	}
	in := kit.PadInts(append([]int64{lo, 0, hi}, c.Amps...), c.Pad)
	if c.Pad > len(c.Amps)+3 {
		res.Class("paddedToLongBuffer")
	}
	for _, a := range in {
		if a < lo || a > hi {
			return kit.Result{}
		}
	}
	sort.Slice(in, func(i, j int) bool { return in[i] < in[j] })
	out := make([]int64, len(in))
	if p, v := kit.Try(func() { e.NewBlockShape(c.Fix, c.Ch)(in, nil, out, nil) }); p {
		res.Failf("%s panicked: %v", e, v)
		return
	}
	// the same values in descending and in a scrambled order must give the same results
	// (order preservation is a statement about values, not about positions in a buffer)
	for pass, perm := range [][]int{reversed(len(in)), scrambled(len(in))} {
		pin, pout := make([]int64, len(in)), make([]int64, len(in))
		for i, j := range perm {
			pin[i] = in[j]
		}
		if p, v := kit.Try(func() { e.NewBlockShape(c.Fix, c.Ch)(pin, nil, pout, nil) }); p {
			res.Failf("%s panicked: %v", e, v)
			return
		}
		for i, j := range perm {
			if pout[i] != out[j] {
				res.Failf("%s: amplitude %d maps to %d when the buffer is in ascending order but to %d in %s order (position %d, preceded by %d): the result depends on the neighbours, so order is not preserved", e, in[j], out[j], pout[i], []string{"descending", "scrambled"}[pass], i, pin[kit.Max(i-1, 0)])
				return
			}
		}
	}
	for i := range in {
		if in[i] == lo && out[i] != numkit.Lo(dd) {
			res.Failf("%s: lowest code (amplitude %d) maps to amplitude %d, want the lowest code %d", e, lo, out[i], numkit.Lo(dd))
			return
		}
		if in[i] == hi && out[i] != numkit.Hi(dd) {
			res.Failf("%s: highest code (amplitude %d) maps to amplitude %d, want the highest code %d", e, hi, out[i], numkit.Hi(dd))
			return
		}
		if in[i] == 0 && out[i] != 0 {
			res.Failf("%s: zero-amplitude code maps to amplitude %d, want 0", e, out[i])
			return
		}
		if i > 0 && out[i] < out[i-1] {
			res.Failf("%s: order inverted: amplitude %d -> %d but the larger amplitude %d -> %d", e, in[i-1], out[i-1], in[i], out[i])
			return
		}
		if !pinned(in[i], ds) {
			res.Class("codeNotPinnedByExamples")
		}
	}
	if ds != dd {
		res.Class("depthsDiffer")
	}
	if e.S.Kind != e.D.Kind {
		res.Class("signednessDiffers")
	}
	return
}

func reversed(n int) []int {
	p := make([]int, n)
	for i := range p {
		p[i] = n - 1 - i
	}
	return p
}

// scrambled is a fixed permutation that puts far-apart elements next to each other.
func scrambled(n int) []int {
	p := make([]int, 0, n)
	for i, j := 0, n-1; i <= j; i, j = i+1, j-1 {
		p = append(p, i)
		if i != j {
			p = append(p, j)
		}
	}
	// and swap neighbours pairwise so that ascending runs of two appear in descending order as well
	for i := 0; i+3 < len(p); i += 4 {
		p[i], p[i+2] = p[i+2], p[i]
	}
	return p
}

func FP(c *Case) uint64 {
	h := kit.NewHasher()
	h.Str(c.S)
	h.Str(c.D)
	h.Int(len(c.Amps))
	h.Int(c.Pad)
	h.Int(c.Fix)
	h.Int(c.Ch)
	for _, a := range c.Amps {
		h.U64(uint64(a))
	}
	return h.Sum()
}

var bAmps = map[int][]int64{8: kit.BoundaryAmps(8), 16: kit.BoundaryAmps(16), 32: kit.BoundaryAmps(32), 64: kit.BoundaryAmps(64)}

func Gen(t *rapid.T) *Case {
	e := Pairs[rapid.IntRange(0, len(Pairs)-1).Draw(t, "pair")]
	if e.S.Bits < 32 && rapid.IntRange(0, 3).Draw(t, "preferWide") != 0 {
		// the narrow sources are swept exhaustively; spend most random cases on 32/64-bit sources
		e = Pairs[rapid.IntRange(0, len(Pairs)-1).Draw(t, "pair2")]
	}
	c := &Case{S: e.S.Name, D: e.D.Name}
	c.Pad = kit.GenPad(t)
	c.Fix = rapid.IntRange(0, convtab.MaxFix).Draw(t, "fix")
	c.Ch = kit.GenNumCh(t, c.Pad)
	n := rapid.IntRange(2, 24).Draw(t, "n")
	base := kit.GenAmp(t, e.S.Bits, bAmps[e.S.Bits])
	for i := 0; i < n; i++ {
		if rapid.Bool().Draw(t, "near") {
			// neighbours of a common base: order violations are local
			a := base + int64(rapid.IntRange(-40, 40).Draw(t, "delta"))
			if (a < base) != (a-base < 0) || a < numkit.Lo(e.S.Bits) || a > numkit.Hi(e.S.Bits) {
				a = base
			}
			c.Amps = append(c.Amps, a)
		} else {
			c.Amps = append(c.Amps, kit.GenAmp(t, e.S.Bits, bAmps[e.S.Bits]))
		}
	}
	return c
}

var Oracle = kit.Oracle[Case]{Property: Property, Gen: Gen, Check: Check, FP: FP}
