// Package c01 decides property C01: written samples are read back unchanged in
// frame-interleaved layout, and readers/writers touch exactly the common prefix.
package c01

import (
	"fmt"

	"pgregory.net/rapid"
	"pipelined.dev/signal"
	"verif/harness/kit"
)

const Property = "C01"

// Op is one reader/writer call on the window under test.
type Op struct {
	Kind string    `json:"kind"` // write | read | writeStriped | readStriped
	N    int       `json:"n,omitempty"`
	Lens []int     `json:"lens,omitempty"` // striped: per-channel slice length, -1 = nil
	Vals []kit.Val `json:"vals,omitempty"` // value pool for writers: element k is Vals[k % len]
	// Share (striped forms): 0 = every per-channel slice has storage of its own; 1 (writeStriped only) = the
	// non-nil channels are prefixes of one caller array (same first element, own lengths: one signal fanned
	// out); 2 = they are consecutive pieces of one flat caller array (a planar block when the lengths are
	// equal), each keeping the capacity up to the end of the block; 3 = the same with the places of channels
	// 1 and 2 exchanged (four or more channels); 4 = the same, but channel 1 (three or more channels) has
	// storage of its own and its place in the block stays unused. Where the caller keeps its slices is the
	// caller's business: a writer only reads them, a reader fills exactly the slices it was given.
	Share int `json:"share,omitempty"`
}

// Case: a window [A,Bf) (+Partial extra samples) of a root of Kr frames with C
// channels and element type B; slices have element type S.
type Case struct {
	S       string `json:"s"`
	B       string `json:"b"`
	C       int    `json:"c"`
	Kr      int    `json:"kr"`
	A       int    `json:"a"`
	Bf      int    `json:"bf"`
	Partial int    `json:"partial,omitempty"`
	Fix     int    `json:"fix,omitempty"` // fixture construction order, see kit.RootWindow
	Ops     []Op   `json:"ops"`
}

var table = map[string]func(*Case) kit.Result{}

func reg[S, B signal.SignalTypes](s, b string) { table[s+"/"+b] = run[S, B] }

func regRow[S signal.SignalTypes](s string) {
	reg[S, int](s, "int")
	reg[S, int8](s, "int8")
	reg[S, int16](s, "int16")
	reg[S, int32](s, "int32")
	reg[S, int64](s, "int64")
	reg[S, uint](s, "uint")
	reg[S, uint8](s, "uint8")
	reg[S, uint16](s, "uint16")
	reg[S, uint32](s, "uint32")
	reg[S, uint64](s, "uint64")
	reg[S, uintptr](s, "uintptr")
	reg[S, float32](s, "float32")
	reg[S, float64](s, "float64")
}

func init() {
	regRow[int]("int")
	regRow[int8]("int8")
	regRow[int16]("int16")
	regRow[int32]("int32")
	regRow[int64]("int64")
	regRow[uint]("uint")
	regRow[uint8]("uint8")
	regRow[uint16]("uint16")
	regRow[uint32]("uint32")
	regRow[uint64]("uint64")
	regRow[uintptr]("uintptr")
	regRow[float32]("float32")
	regRow[float64]("float64")
	// named element types on the slice side, the buffer side or both
	reg[kit.NInt16, int16]("NInt16", "int16")
	reg[int16, kit.NInt16]("int16", "NInt16")
	reg[kit.NInt16, kit.NInt16]("NInt16", "NInt16")
	reg[kit.NFloat32, float32]("NFloat32", "float32")
	reg[float32, kit.NFloat32]("float32", "NFloat32")
	reg[kit.NFloat32, kit.NFloat32]("NFloat32", "NFloat32")
	reg[kit.NUint8, float64]("NUint8", "float64")
	reg[float64, kit.NInt16]("float64", "NInt16")
	reg[kit.NUint8, kit.NInt16]("NUint8", "NInt16")
}

// NamedPairs are the slice/buffer element-type pairs with named types.
var NamedPairs = [][2]string{{"NInt16", "int16"}, {"int16", "NInt16"}, {"NInt16", "NInt16"}, {"NFloat32", "float32"}, {"float32", "NFloat32"},
	{"NFloat32", "NFloat32"}, {"NUint8", "float64"}, {"float64", "NInt16"}, {"NUint8", "NInt16"}}

// valid reports whether the case is inside the property's domain.
func (c *Case) valid() bool {
	if c.C < 1 || c.Kr < 0 || c.A < 0 || c.A > c.Bf || c.Bf > c.Kr || c.Partial < 0 || c.Fix < 0 || c.Fix == 3 || c.Fix > 1<<12 {
		return false
	}
	if c.Partial > 0 && (c.Partial >= c.C || c.Bf >= c.Kr) {
		return false
	}
	if c.C*c.Kr > 1<<22 {
		return false
	}
	for _, op := range c.Ops {
		switch op.Kind {
		case "write", "read":
			if op.N < 0 || op.N > 1<<22 {
				return false
			}
			if op.Kind == "write" && op.N > 0 && len(op.Vals) == 0 {
				return false
			}
		case "writeStriped", "readStriped":
			if c.Partial > 0 || len(op.Lens) != c.C {
				return false
			}
			for _, l := range op.Lens {
				if l < -1 || l > 1<<20 {
					return false
				}
				if op.Kind == "writeStriped" && l > 0 && len(op.Vals) == 0 {
					return false
				}
			}
			if op.Share < 0 || op.Share > 4 || (op.Share == 1 && op.Kind != "writeStriped") {
				return false
			}
		default:
			return false
		}
	}
	return true
}

// Check is the oracle.
func Check(c *Case) kit.Result {
	f, ok := table[c.S+"/"+c.B]
	if !ok || !c.valid() {
		return kit.Result{} // outside the domain: trivial pass
	}
	return f(c)
}

func run[S, B signal.SignalTypes](c *Case) (res kit.Result) {
	C := c.C
	root, w := kit.RootWindow[B](C, c.Kr, c.A, c.Bf, c.Partial, c.Fix)
	model := kit.RootModel[B](C, c.Kr)
	rootHdr := kit.HdrOf(root)
	if c.Fix == 1 || c.Fix == 2 {
		res.Class("headerNeverWrittenThrough")
	}
	if c.Fix >= 4 {
		res.Class("contentAppendedInTwoPieces")
	}
	kit.ApplyPartial(model, C, c.Bf, c.Partial)
	off := C * c.A
	n := C*(c.Bf-c.A) + c.Partial
	frames := c.Bf - c.A
	wantHdr := kit.ModelHdr(C, n, C*(c.Kr-c.A), kit.BitsOf[B]())
	if h := kit.HdrOf(w); h != wantHdr {
		res.Failf("window header %+v, want %+v", h, wantHdr)
		return
	}

	// classes
	if c.S != c.B {
		res.Class("crossType")
	}
	if c.A > 0 || c.Bf < c.Kr {
		res.Class("window")
	}
	if c.Partial > 0 && C >= 2 {
		res.Class("partialFrame")
	}
	wrote := false
	// ledger: every slice the caller handed to an earlier call, with what it held when that call
	// returned. A later call was not given these slices and must not touch them.
	type kept struct {
		what string
		s    []S
		want []S
	}
	inOuter, outOuter := make([][]S, C), make([][]S, C)
	var ledger []kept
	remember := func(what string, s []S) {
		if s != nil {
			ledger = append(ledger, kept{what, s[:cap(s)], append([]S(nil), s[:cap(s)]...)})
		}
	}

	for oi, op := range c.Ops {
		earlier := len(ledger)
		what := fmt.Sprintf("op %d (%s)", oi, op.Kind)
		switch op.Kind {
		case "write":
			in := spare[S](op.N, oi)
			for k := range in {
				in[k] = kit.As[S](op.Vals[k%len(op.Vals)])
			}
			keep := append([]S(nil), in[:cap(in)]...)
			var ret int
			if p, v := kit.Try(func() { ret = signal.Write(in, w) }); p {
				res.Failf("%s: panic %v", what, v)
				return
			}
			m := kit.Min(n, op.N)
			for k := 0; k < m; k++ {
				model[off+k] = kit.As[B](op.Vals[k%len(op.Vals)])
			}
			if want := kit.CeilDiv(m, C); ret != want {
				res.Failf("%s: returned %d, want %d (buffer len %d, input len %d, %d channels)", what, ret, want, n, op.N, C)
				return
			}
			if d := kit.DiffSlice("caller's input slice (including the elements behind its length)", in[:cap(in)], keep); d != "" {
				res.Failf("%s: %s", what, d)
				return
			}
			if op.N != n {
				res.Class("lenMismatch")
			}
			wrote = true
			remember(what+": input slice", in)
		case "read":
			out := spare[S](op.N, oi)
			want := append([]S(nil), out[:cap(out)]...)
			for k := range out {
				out[k] = S(kit.OutSentinel(k))
				want[k] = out[k]
			}
			var ret int
			if p, v := kit.Try(func() { ret = signal.Read(w, out) }); p {
				res.Failf("%s: panic %v", what, v)
				return
			}
			m := kit.Min(n, op.N)
			for k := 0; k < m; k++ {
				want[k] = S(model[off+k])
			}
			if wr := kit.CeilDiv(m, C); ret != wr {
				res.Failf("%s: returned %d, want %d (buffer len %d, output len %d, %d channels)", what, ret, wr, n, op.N, C)
				return
			}
			if d := kit.DiffSlice("output slice (including the elements behind its length)", out[:cap(out)], want); d != "" {
				res.Failf("%s: %s", what, d)
				return
			}
			if op.N != n {
				res.Class("lenMismatch")
			}
			if wrote {
				res.Class("roundTrip")
			}
			remember(what+": output slice", out)
		case "writeStriped":
			in := inOuter // one outer slice for all the calls of a case, as a block-wise producer keeps it
			for ch := range in {
				in[ch] = nil
			}
			keep := make([][]S, C)
			longest := 0
			uneven := false
			for _, l := range op.Lens {
				if l > longest {
					longest = l
				}
			}
			starts, total := layout(op.Lens, op.Share)
			// vi: which element of the value pool input sample i of channel ch holds
			vi := func(ch, i int) int { return ch*7 + i }
			var shared []S
			switch {
			case op.Share == 1:
				vi = func(ch, i int) int { return i }
				shared = spare[S](longest, oi)
			case op.Share >= 2:
				vi = func(ch, i int) int {
					if starts[ch] < 0 {
						return ch*7 + i
					}
					return starts[ch] + i
				}
				shared = spare[S](total, oi)
			}
			if op.Share != 0 && len(op.Vals) > 0 {
				for i := range shared {
					shared[i] = kit.As[S](op.Vals[i%len(op.Vals)])
				}
				res.Class("stripedInputChannelsShareStorage")
			}
			for ch, l := range op.Lens {
				if l < 0 {
					uneven = true
					continue
				}
				switch {
				case op.Share == 1:
					in[ch] = shared[:l]
				case op.Share >= 2 && starts[ch] >= 0:
					in[ch] = shared[starts[ch] : starts[ch]+l]
				default:
					in[ch] = spare[S](l, oi+ch)
					for i := range in[ch] {
						in[ch][i] = kit.As[S](op.Vals[vi(ch, i)%len(op.Vals)])
					}
				}
				keep[ch] = append([]S(nil), in[ch][:cap(in[ch])]...)
				if l != op.Lens[0] || l == 0 {
					uneven = true
				}
			}
			var ret int
			if p, v := kit.Try(func() { ret = signal.WriteStriped(in, w) }); p {
				res.Failf("%s: panic %v", what, v)
				return
			}
			m := kit.Min(longest, frames)
			for ch := 0; ch < C; ch++ {
				for i := 0; i < m; i++ {
					if i < len(in[ch]) {
						model[off+C*i+ch] = kit.As[B](op.Vals[vi(ch, i)%len(op.Vals)])
					} else {
						model[off+C*i+ch] = 0
					}
				}
			}
			if ret != m {
				res.Failf("%s: returned %d, want %d (frames %d, longest input %d)", what, ret, m, frames, longest)
				return
			}
			for ch := range in {
				if (in[ch] == nil) != (op.Lens[ch] < 0) {
					res.Failf("%s: nil-ness of input channel %d changed", what, ch)
					return
				}
				if len(in[ch]) != op.Lens[ch] && op.Lens[ch] >= 0 {
					res.Failf("%s: the caller's input channel %d now has length %d, was %d", what, ch, len(in[ch]), op.Lens[ch])
					return
				}
				if in[ch] == nil {
					continue
				}
				if d := kit.DiffSlice(fmt.Sprintf("caller's input channel %d (including the elements behind its length)", ch), in[ch][:cap(in[ch])], keep[ch]); d != "" {
					res.Failf("%s: %s", what, d)
					return
				}
			}
			if uneven {
				res.Class("stripedUneven")
			}
			if longest != frames {
				res.Class("lenMismatch")
			}
			wrote = true
			for ch := range in {
				remember(fmt.Sprintf("%s: input channel %d", what, ch), in[ch])
			}
		case "readStriped":
			out := outOuter // one outer slice for all the calls of a case
			for ch := range out {
				out[ch] = nil
			}
			want := make([][]S, C)
			wr := 0
			uneven := false
			// Share 2..4: the output slices are pieces of one caller block, compared as a whole afterwards
			starts, total := layout(op.Lens, op.Share)
			var block, wantBlock []S
			if op.Share >= 2 {
				block = spare[S](total, oi)
				for k := range block {
					block[k] = S(kit.OutSentinel(k * 3))
				}
				wantBlock = append([]S(nil), block[:cap(block)]...)
				res.Class("stripedOutputChannelsShareABlock")
			}
			for ch, l := range op.Lens {
				if l < 0 {
					uneven = true
					continue
				}
				nc := kit.Min(l, frames)
				if op.Share >= 2 && starts[ch] >= 0 {
					out[ch] = block[starts[ch] : starts[ch]+l]
					for i := 0; i < nc; i++ {
						wantBlock[starts[ch]+i] = S(model[off+C*i+ch])
					}
				} else {
					out[ch] = spare[S](l, oi+ch)
					want[ch] = append([]S(nil), out[ch][:cap(out[ch])]...)
					for i := range out[ch] {
						out[ch][i] = S(kit.OutSentinel(ch*5 + i))
						want[ch][i] = out[ch][i]
					}
					for i := 0; i < nc; i++ {
						want[ch][i] = S(model[off+C*i+ch])
					}
				}
				if nc > wr {
					wr = nc
				}
				if l != op.Lens[0] || l == 0 {
					uneven = true
				}
				if l != frames {
					res.Class("lenMismatch")
				}
			}
			var ret int
			if p, v := kit.Try(func() { ret = signal.ReadStriped(w, out) }); p {
				res.Failf("%s: panic %v", what, v)
				return
			}
			if ret != wr {
				res.Failf("%s: returned %d, want %d (frames %d, lens %v)", what, ret, wr, frames, op.Lens)
				return
			}
			for ch := range out {
				if (out[ch] == nil) != (op.Lens[ch] < 0) {
					res.Failf("%s: nil-ness of output channel %d changed", what, ch)
					return
				}
				if out[ch] == nil {
					continue
				}
				if len(out[ch]) != op.Lens[ch] {
					res.Failf("%s: the caller's output channel %d now has length %d, was %d", what, ch, len(out[ch]), op.Lens[ch])
					return
				}
				if want[ch] == nil {
					continue // a piece of the block, compared below
				}
				if d := kit.DiffSlice(fmt.Sprintf("output channel %d (including the elements behind its length)", ch), out[ch][:cap(out[ch])], want[ch]); d != "" {
					res.Failf("%s: %s", what, d)
					return
				}
			}
			if block != nil {
				if d := kit.DiffSlice(fmt.Sprintf("the caller's block holding the output channels at %v (lengths %v; -1: not in the block), including what lies between and behind them", starts, op.Lens), block[:cap(block)], wantBlock); d != "" {
					res.Failf("%s: %s", what, d)
					return
				}
				remember(what+": block of the output channels", block)
			}
			if uneven {
				res.Class("stripedUneven")
			}
			if wrote {
				res.Class("roundTrip")
			}
			for ch := range out {
				if want[ch] != nil {
					remember(fmt.Sprintf("%s: output channel %d", what, ch), out[ch])
				}
			}
		}
		for _, k := range ledger[:earlier] {
			if d := kit.DiffSlice("a slice this call was not given ("+k.what+", as that call left it)", k.s, k.want); d != "" {
				res.Failf("%s: %s", what, d)
				return
			}
		}
		if earlier > 0 {
			res.Class("earlierCallersSlicesRechecked")
		}
		// frame condition: the whole root storage, and both headers
		if d := kit.DiffSlice("root storage", kit.Snap(root), model); d != "" {
			res.Failf("%s: %s (window starts at position %d, len %d)", what, d, off, n)
			return
		}
		if h := kit.HdrOf(w); h != wantHdr {
			res.Failf("%s: buffer shape changed to %+v, want %+v", what, h, wantHdr)
			return
		}
		if h := kit.HdrOf(root); h != rootHdr {
			res.Failf("%s: root shape changed to %+v, want %+v", what, h, rootHdr)
			return
		}
	}
	// layout function, independent of the oracle's own C*i+ch
	for ch := 0; ch < C; ch += kit.Max(1, C/3) {
		for i := 0; i <= frames; i += kit.Max(1, frames/3) {
			if got := w.BufferIndex(ch, i); got != C*i+ch {
				res.Failf("BufferIndex(%d,%d) = %d, want %d", ch, i, got, C*i+ch)
				return
			}
		}
	}
	return
}

// layout places the per-channel slices of a striped call in one caller block (Share 2..4): starts[ch] is
// where channel ch begins, -1 for a channel that has storage of its own (or is nil); total is the length
// of the block.
func layout(lens []int, share int) (starts []int, total int) {
	C := len(lens)
	order := make([]int, C)
	for i := range order {
		order[i] = i
	}
	if share == 3 && C >= 4 {
		order[1], order[2] = 2, 1
	}
	starts = make([]int, C)
	for _, ch := range order {
		starts[ch] = -1
		if l := lens[ch]; l >= 0 {
			if !(share == 4 && C >= 3 && ch == 1) {
				starts[ch] = total
			}
			total += l // the place of an evicted channel stays unused
		}
	}
	return
}

// spare returns a slice of length n that is a window of a larger caller-owned
// array: 0..3 further elements sit behind its length, holding recognisable
// non-zero values. They belong to the caller as much as the slice itself.
func spare[S signal.SignalTypes](n, salt int) []S {
	extra := (n + salt) % 4
	backing := make([]S, n+extra)
	for k := n; k < len(backing); k++ {
		backing[k] = S(kit.OutSentinel(k + 31))
	}
	return backing[:n]
}

// FP is the fingerprint of the canonical case.
func FP(c *Case) uint64 {
	h := kit.NewHasher()
	h.Str(c.S)
	h.Str(c.B)
	h.Ints([]int{c.C, c.Kr, c.A, c.Bf, c.Partial, c.Fix, len(c.Ops)})
	for _, op := range c.Ops {
		h.Str(op.Kind)
		h.Int(op.N)
		h.Ints(op.Lens)
		h.Int(op.Share)
		h.Vals(op.Vals)
	}
	return h.Sum()
}

var names = kit.BuiltinNames()

// Gen draws a case.
func Gen(t *rapid.T) *Case {
	p := rapid.IntRange(0, len(names)*len(names)-1).Draw(t, "pair")
	c := &Case{S: names[p/len(names)], B: names[p%len(names)]}
	if rapid.IntRange(0, 11).Draw(t, "namedSel") == 0 {
		np := rapid.SampledFrom(NamedPairs).Draw(t, "namedPair")
		c.S, c.B = np[0], np[1]
	}
	si, bi := kit.Info(c.S), kit.Info(c.B)
	c.C = kit.GenChannels(t)
	c.Kr, c.A, c.Bf = kit.GenWindow(t, "w", 600)
	if c.Bf < c.Kr && c.C >= 2 && rapid.IntRange(0, 2).Draw(t, "partialSel") == 0 {
		c.Partial = rapid.IntRange(1, c.C-1).Draw(t, "partial")
	}
	c.Fix = kit.GenFix(t, "fix", c.C)
	long := kit.Chance(t, "longWindow", 1, 120)
	if long {
		// thousands of frames, few channels, several calls: block-wise paths of the striped forms
		c.C = rapid.IntRange(1, 3).Draw(t, "cLong")
		c.Kr = rapid.IntRange(4090, 9000).Draw(t, "krLong")
		c.A, c.Partial = rapid.IntRange(0, 2).Draw(t, "aLong"), 0
		c.Bf = c.Kr - rapid.IntRange(0, 2).Draw(t, "spareLong")
	}
	n := c.C*(c.Bf-c.A) + c.Partial
	frames := c.Bf - c.A
	nops := rapid.IntRange(1, 3).Draw(t, "nops")
	if long {
		nops = rapid.IntRange(3, 5).Draw(t, "nopsLong")
	}
	for i := 0; i < nops; i++ {
		var op Op
		kinds := []string{"write", "read", "writeStriped", "readStriped"}
		if c.Partial > 0 {
			kinds = kinds[:2]
		}
		op.Kind = rapid.SampledFrom(kinds).Draw(t, "kind")
		switch op.Kind {
		case "write", "read":
			op.N = kit.GenLenRel(t, "n", n)
		default:
			op.Lens = make([]int, c.C)
			same := rapid.IntRange(0, 3).Draw(t, "even") == 0
			first := kit.GenLenRel(t, "len0", frames)
			for ch := range op.Lens {
				switch {
				case same:
					op.Lens[ch] = first
				case rapid.IntRange(0, 5).Draw(t, "nil") == 0:
					op.Lens[ch] = -1
				default:
					op.Lens[ch] = kit.GenLenRel(t, "len", frames)
				}
			}
			if sh := rapid.IntRange(0, 8).Draw(t, "share"); sh <= 4 && (sh != 1 || op.Kind == "writeStriped") {
				op.Share = sh
				if sh >= 2 && rapid.Bool().Draw(t, "planar") { // a planar block: equal lengths, or all but the last equal
					n := kit.GenLenRel(t, "planarLen", frames)
					for ch := range op.Lens {
						op.Lens[ch] = n
					}
					if rapid.Bool().Draw(t, "lastDiffers") {
						op.Lens[c.C-1] = kit.GenLenRel(t, "planarLast", frames)
					}
				}
			}
		}
		if op.Kind == "write" || op.Kind == "writeStriped" {
			nv := rapid.IntRange(1, 12).Draw(t, "nvals")
			op.Vals = kit.GenCommonVals(t, si, bi, nv)
		}
		c.Ops = append(c.Ops, op)
	}
	return c
}

var Oracle = kit.Oracle[Case]{Property: Property, Gen: Gen, Check: Check, FP: FP}
