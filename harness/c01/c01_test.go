package c01

import (
	"testing"

	"verif/harness/kit"
)

func TestRegress(t *testing.T) { Oracle.Regress(t) }
func TestRapid(t *testing.T)   { Oracle.Rapid(t) }
func TestReplay(t *testing.T)  { Oracle.Replay(t) }
func FuzzC01(f *testing.F)     { Oracle.Fuzz(f) }

// TestSweep enumerates a small grid completely for every one of the 169
// element-type pairs, so that each pair is exercised whatever rapid draws.
func TestSweep(t *testing.T) {
	env := kit.GetEnv(Property)
	rec := kit.NewRecorder(env, "sweep")
	defer func() { rec.Flush(!t.Failed()) }()
	vals := []kit.Val{kit.IV(7), kit.IV(0), kit.IV(100), kit.IV(1)}
	maxK := env.Pick(3, 4)
	for _, s := range names {
		for _, b := range names {
			for C := 1; C <= 3; C++ {
				for kr := 0; kr <= maxK; kr++ {
					for a := 0; a <= kr; a++ {
						for bf := a; bf <= kr; bf++ {
							n, fr := C*(bf-a), bf-a
							for _, N := range []int{0, n - 1, n, n + 1} {
								if N < 0 {
									continue
								}
								for _, kind := range []string{"write", "read"} {
									c := &Case{S: s, B: b, C: C, Kr: kr, A: a, Bf: bf, Fix: (N + a) % 3, Ops: []Op{{Kind: kind, N: N, Vals: vals}}}
									Oracle.One(t, env, rec, "sweep", c)
								}
							}
							for _, L := range []int{-1, 0, fr - 1, fr, fr + 1} {
								if L < -1 {
									continue
								}
								lens := make([]int, C)
								for ch := range lens {
									lens[ch] = fr
								}
								lens[C-1] = L
								for _, kind := range []string{"writeStriped", "readStriped"} {
									for fix := 0; fix <= 2; fix++ {
										c := &Case{S: s, B: b, C: C, Kr: kr, A: a, Bf: bf, Fix: fix, Ops: []Op{{Kind: kind, Lens: lens, Vals: vals}}}
										Oracle.One(t, env, rec, "sweep", c)
									}
								}
							}
						}
					}
				}
			}
		}
	}
	rec.Exhaustive("169 pairs x C<=3 x root<=3(4) frames x all windows x {write,read,writeStriped,readStriped} x lengths {0,n-1,n,n+1}", true)
}
