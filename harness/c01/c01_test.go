package c01

import (
	"testing"

	"verif/harness/kit"
)

func TestRegress(t *testing.T) { Oracle.Regress(t) }
func TestRapid(t *testing.T)   { Oracle.Rapid(t) }
func TestReplay(t *testing.T)  { Oracle.Replay(t) }
func FuzzC01(f *testing.F)     { Oracle.Fuzz(f) }

// TestSweep enumerates a small grid completely for every one of the 169
// element-type pairs, so that each pair is exercised whatever rapid draws.
func TestSweep(t *testing.T) {
	env := kit.GetEnv(Property)
	rec := kit.NewRecorder(env, "sweep")
	defer func() { rec.Flush(!t.Failed()) }()
	vals := []kit.Val{kit.IV(7), kit.IV(0), kit.IV(100), kit.IV(1)}
	maxK := env.Pick(3, 4)
	for _, s := range names {
		for _, b := range names {
			for C := 1; C <= 3; C++ {
				for kr := 0; kr <= maxK; kr++ {
					for a := 0; a <= kr; a++ {
						for bf := a; bf <= kr; bf++ {
							n, fr := C*(bf-a), bf-a
							for _, N := range []int{0, n - 1, n, n + 1} {
								if N < 0 {
									continue
								}
								for _, kind := range []string{"write", "read"} {
									c := &Case{S: s, B: b, C: C, Kr: kr, A: a, Bf: bf, Fix: (N + a) % 3, Ops: []Op{{Kind: kind, N: N, Vals: vals}}}
									Oracle.One(t, env, rec, "sweep", c)
								}
							}
							for _, L := range []int{-1, 0, fr - 1, fr, fr + 1} {
								if L < -1 {
									continue
								}
								lens := make([]int, C)
								for ch := range lens {
									lens[ch] = fr
								}
								lens[C-1] = L
								for _, kind := range []string{"writeStriped", "readStriped"} {
									for fix := 0; fix <= 2; fix++ {
										c := &Case{S: s, B: b, C: C, Kr: kr, A: a, Bf: bf, Fix: fix, Ops: []Op{{Kind: kind, Lens: lens, Vals: vals}}}
										Oracle.One(t, env, rec, "sweep", c)
									}
								}
							}
						}
					}
				}
			}
		}
	}
	// many channels (beyond 64) with uneven striped slices and interleaved forms
	for _, pr := range [][2]string{{"float64", "float64"}, {"int16", "float32"}, {"uint8", "int64"}} {
		for _, C := range []int{63, 64, 65, 66, 100, 129} {
			lens := make([]int, C)
			for ch := range lens {
				lens[ch] = 3 - ch%3 // 3,2,1,3,2,1,...
				if ch%7 == 5 {
					lens[ch] = -1
				}
			}
			for _, kind := range []string{"writeStriped", "readStriped"} {
				Oracle.One(t, env, rec, "sweep", &Case{S: pr[0], B: pr[1], C: C, Kr: 4, A: 1, Bf: 4, Fix: C % 3, Ops: []Op{{Kind: kind, Lens: lens, Vals: vals}}})
			}
			Oracle.One(t, env, rec, "sweep", &Case{S: pr[0], B: pr[1], C: C, Kr: 3, A: 0, Bf: 2, Ops: []Op{{Kind: "write", N: 2*C - 1, Vals: vals}, {Kind: "read", N: 2*C + 1}}})
		}
	}
	rec.Exhaustive("169 pairs x C<=3 x root<=3(4) frames x all windows x {write,read,writeStriped,readStriped} x lengths {0,n-1,n,n+1}", true)
}
