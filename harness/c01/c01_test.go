package c01

import (
	"math"
	"testing"

	"verif/harness/kit"
)

func TestRegress(t *testing.T) { Oracle.Regress(t) }
func TestRapid(t *testing.T)   { Oracle.Rapid(t) }
func TestReplay(t *testing.T)  { Oracle.Replay(t) }
func FuzzC01(f *testing.F)     { Oracle.Fuzz(f) }

// TestSweep enumerates a small grid completely for every one of the 169
// element-type pairs, so that each pair is exercised whatever rapid draws.
func TestSweep(t *testing.T) {
	env := kit.GetEnv(Property)
	rec := kit.NewRecorder(env, "sweep")
	defer func() { rec.Flush(!t.Failed()) }()
	vals := []kit.Val{kit.IV(7), kit.IV(0), kit.IV(100), kit.IV(1)}
	maxK := env.Pick(3, 4)
	for _, s := range names {
		for _, b := range names {
			for C := 1; C <= 3; C++ {
				for kr := 0; kr <= maxK; kr++ {
					for a := 0; a <= kr; a++ {
						for bf := a; bf <= kr; bf++ {
							n, fr := C*(bf-a), bf-a
							for _, N := range []int{0, n - 1, n, n + 1} {
								if N < 0 {
									continue
								}
								for _, kind := range []string{"write", "read"} {
									c := &Case{S: s, B: b, C: C, Kr: kr, A: a, Bf: bf, Fix: (N + a) % 3, Ops: []Op{{Kind: kind, N: N, Vals: vals}}}
									Oracle.One(t, env, rec, "sweep", c)
								}
							}
							for _, L := range []int{-1, 0, fr - 1, fr, fr + 1} {
								if L < -1 {
									continue
								}
								lens := make([]int, C)
								for ch := range lens {
									lens[ch] = fr
								}
								lens[C-1] = L
								for _, kind := range []string{"writeStriped", "readStriped"} {
									for fix := 0; fix <= 2; fix++ {
										c := &Case{S: s, B: b, C: C, Kr: kr, A: a, Bf: bf, Fix: fix, Ops: []Op{{Kind: kind, Lens: lens, Vals: vals}}}
										Oracle.One(t, env, rec, "sweep", c)
									}
								}
							}
						}
					}
				}
			}
		}
	}
	// very long buffers (beyond 65536 samples, lengths that are not multiples of 4 or 8)
	for i, pr := range [][2]string{{"float32", "float32"}, {"int16", "int16"}, {"float64", "int32"}, {"uint8", "float32"}, {"int64", "int64"}} {
		C := 1 + i%3
		fr := (65536+5+i)/C + 1
		n := C * fr
		for _, kind := range []string{"write", "read"} {
			Oracle.One(t, env, rec, "sweep", &Case{S: pr[0], B: pr[1], C: C, Kr: fr + 2, A: 1, Bf: fr + 1, Fix: i % 3, Ops: []Op{{Kind: "write", N: n - 3, Vals: vals}, {Kind: kind, N: n + 2, Vals: vals}}})
		}
		lens := make([]int, C)
		for ch := range lens {
			lens[ch] = fr - ch
		}
		Oracle.One(t, env, rec, "sweep", &Case{S: pr[0], B: pr[1], C: C, Kr: fr + 2, A: 1, Bf: fr + 1, Ops: []Op{{Kind: "writeStriped", Lens: lens, Vals: vals}, {Kind: "readStriped", Lens: lens}}})
	}
	// more than 2^20 samples moved by one call (sizes that are not multiples of 2, 3, 4 or 16)
	for i, pr := range [][2]string{{"int16", "int16"}, {"float32", "float64"}, {"uint8", "uint8"}} {
		C := 1 + i
		fr := (1<<20+7+2*i)/C + 1
		n := C * fr
		for _, kind := range []string{"write", "read"} {
			Oracle.One(t, env, rec, "sweep", &Case{S: pr[0], B: pr[1], C: C, Kr: fr + 1, A: 1, Bf: fr + 1, Ops: []Op{{Kind: "write", N: n - 1, Vals: vals}, {Kind: kind, N: n + 1, Vals: vals}}})
		}
	}
	// +0 and -0 are different samples: written over each other in both orders, through both writers
	pz, nz := kit.FV(0), kit.FV(math.Copysign(0, -1))
	for _, pr := range [][2]string{{"float32", "float32"}, {"float64", "float64"}, {"float32", "float64"}, {"float64", "float32"}} {
		for _, seq := range [][]kit.Val{{pz, nz}, {nz, pz}, {pz, nz, pz}} {
			var ops, sops []Op
			for _, z := range seq {
				ops = append(ops, Op{Kind: "write", N: 4, Vals: []kit.Val{z}})
				sops = append(sops, Op{Kind: "writeStriped", Lens: []int{2, 1}, Vals: []kit.Val{z}})
			}
			ops = append(ops, Op{Kind: "read", N: 4})
			sops = append(sops, Op{Kind: "readStriped", Lens: []int{2, 2}})
			Oracle.One(t, env, rec, "sweep", &Case{S: pr[0], B: pr[1], C: 2, Kr: 3, A: 0, Bf: 2, Ops: ops})
			Oracle.One(t, env, rec, "sweep", &Case{S: pr[0], B: pr[1], C: 2, Kr: 3, A: 1, Bf: 3, Fix: 1, Ops: sops})
		}
	}
	// channel counts around 65536 (a count narrowed to 16 bits would wrap)
	for _, C := range []int{255, 256, 257, 65535, 65536, 65537, 65538} {
		lens := make([]int, C)
		for ch := range lens {
			lens[ch] = 2 - ch%2
		}
		Oracle.One(t, env, rec, "sweep", &Case{S: "int16", B: "int16", C: C, Kr: 3, A: 0, Bf: 2, Ops: []Op{{Kind: "write", N: 2*C - 1, Vals: vals}, {Kind: "read", N: 2 * C}}})
		Oracle.One(t, env, rec, "sweep", &Case{S: "float32", B: "float64", C: C, Kr: 3, A: 1, Bf: 3, Ops: []Op{{Kind: "writeStriped", Lens: lens, Vals: vals}, {Kind: "readStriped", Lens: lens}}})
	}
	// many channels (beyond 64) with uneven striped slices and interleaved forms
	for _, pr := range [][2]string{{"float64", "float64"}, {"int16", "float32"}, {"uint8", "int64"}} {
		for _, C := range []int{63, 64, 65, 66, 100, 129} {
			lens := make([]int, C)
			for ch := range lens {
				lens[ch] = 3 - ch%3 // 3,2,1,3,2,1,...
				if ch%7 == 5 {
					lens[ch] = -1
				}
			}
			for _, kind := range []string{"writeStriped", "readStriped"} {
				Oracle.One(t, env, rec, "sweep", &Case{S: pr[0], B: pr[1], C: C, Kr: 4, A: 1, Bf: 4, Fix: C % 3, Ops: []Op{{Kind: kind, Lens: lens, Vals: vals}}})
			}
			Oracle.One(t, env, rec, "sweep", &Case{S: pr[0], B: pr[1], C: C, Kr: 3, A: 0, Bf: 2, Ops: []Op{{Kind: "write", N: 2*C - 1, Vals: vals}, {Kind: "read", N: 2*C + 1}}})
		}
	}
	// thousands of frames, several calls on one window: striped reads with a nil or empty member where an
	// earlier read had a full one, with the content rewritten in between; the slices of the earlier calls
	// are re-checked after every later call
	vals2 := []kit.Val{kit.IV(9), kit.IV(33), kit.IV(2)}
	for i, pr := range [][2]string{{"float32", "float32"}, {"int16", "int16"}, {"float64", "int32"}, {"int32", "float64"}} {
		C := 2 + i%2
		fr := 4097 + 911*i
		full, holes, short := make([]int, C), make([]int, C), make([]int, C)
		for ch := range full {
			full[ch], holes[ch], short[ch] = fr, fr, fr
		}
		holes[1], short[C-1] = -1, 0
		Oracle.One(t, env, rec, "sweep", &Case{S: pr[0], B: pr[1], C: C, Kr: fr + 1, A: 0, Bf: fr, Fix: i % 3, Ops: []Op{
			{Kind: "writeStriped", Lens: full, Vals: vals}, {Kind: "readStriped", Lens: full}, {Kind: "write", N: C * fr, Vals: vals2},
			{Kind: "readStriped", Lens: holes}, {Kind: "readStriped", Lens: short}, {Kind: "read", N: C*fr - 1}}})
	}
	// input channels that share caller storage: one signal fanned out (same start, uneven lengths) and pieces of one flat array
	for _, pr := range [][2]string{{"float64", "float64"}, {"int16", "float32"}, {"int8", "int8"}} {
		for C := 2; C <= 4; C++ {
			for share := 1; share <= 2; share++ {
				for _, lens := range [][]int{{4, 2, 4, 3}, {2, 4, -1, 4}, {4, 4, 4, 4}, {1, 0, 4, 2}} {
					Oracle.One(t, env, rec, "sweep", &Case{S: pr[0], B: pr[1], C: C, Kr: 5, A: 0, Bf: 4, Ops: []Op{
						{Kind: "writeStriped", Lens: lens[:C], Vals: []kit.Val{kit.IV(1), kit.IV(2), kit.IV(3), kit.IV(4), kit.IV(5)}, Share: share}, {Kind: "read", N: 4 * C}}})
				}
			}
		}
	}
	// per-channel slices kept in one caller block: planar (equal lengths), all but the last equal, two inner
	// channels exchanged, one inner channel kept elsewhere - for the writer and for the reader
	for _, pr := range [][2]string{{"float32", "float32"}, {"int16", "float64"}, {"uint8", "uint8"}} {
		for C := 2; C <= 5; C++ {
			for share := 2; share <= 4; share++ {
				for _, last := range []int{4, 2, 6, 0} {
					lens := make([]int, C)
					for ch := range lens {
						lens[ch] = 4
					}
					lens[C-1] = last
					for _, fr := range []int{4, 3, 6} {
						Oracle.One(t, env, rec, "sweep", &Case{S: pr[0], B: pr[1], C: C, Kr: fr + 1, A: 0, Bf: fr, Ops: []Op{
							{Kind: "writeStriped", Lens: lens, Vals: []kit.Val{kit.IV(1), kit.IV(2), kit.IV(3), kit.IV(4), kit.IV(5), kit.IV(6), kit.IV(7)}, Share: share},
							{Kind: "readStriped", Lens: lens, Share: share}, {Kind: "read", N: fr * C}}})
					}
				}
			}
		}
	}
	// the same outer slice for several striped writes on one window, with other members than the first changing length
	for _, pr := range [][2]string{{"float64", "float64"}, {"int8", "int32"}} {
		for C := 2; C <= 3; C++ {
			a, b2, c3 := make([]int, C), make([]int, C), make([]int, C)
			for ch := range a {
				a[ch], b2[ch], c3[ch] = 2, 2, 2
			}
			a[C-1], b2[C-1], c3[C-1] = 3, 1, 4
			Oracle.One(t, env, rec, "sweep", &Case{S: pr[0], B: pr[1], C: C, Kr: 5, A: 0, Bf: 4, Ops: []Op{
				{Kind: "writeStriped", Lens: a, Vals: vals}, {Kind: "writeStriped", Lens: b2, Vals: vals2}, {Kind: "writeStriped", Lens: c3, Vals: vals},
				{Kind: "writeStriped", Lens: b2, Vals: vals2}, {Kind: "read", N: 4 * C}}})
		}
	}
	rec.Exhaustive("169 pairs x C<=3 x root<=3(4) frames x all windows x {write,read,writeStriped,readStriped} x lengths {0,n-1,n,n+1}", true)
}
