package c18

import (
	"testing"

	"verif/harness/convtab"
	"verif/harness/kit"
)

func TestRegress(t *testing.T) { Oracle.Regress(t) }
func TestRapid(t *testing.T)   { Oracle.Rapid(t) }
func TestReplay(t *testing.T)  { Oracle.Replay(t) }

// TestSweep: every operation x every type (all 169 conversions; Read/Write
// forms with the buffer's own, the widest and the narrowest slice types) x a
// few shapes, with and without a windowed destination.
func TestSweep(t *testing.T) {
	env := kit.GetEnv(Property)
	rec := kit.NewRecorder(env, "sweep")
	defer func() { rec.Flush(!t.Failed()) }()
	shapes := [][2]int{{1, 1}, {2, 7}, {8, 64}, {2, 2048}} // the last one is long enough for block/table fast paths
	if env.Thorough() {
		shapes = append(shapes, [2]int{3, 0}, [2]int{5, 1000}, [2]int{1, 4096}, [2]int{4, 2}, [2]int{8, 4096}, [2]int{3, 341})
	}
	// the largest shape of the property's domain (8 channels x 4096 frames = 2^15 samples) for every conversion
	if !env.Thorough() {
		for _, e := range convtab.Entries {
			Oracle.One(t, env, rec, "sweep", &Case{Op: "conv", T: e.S.Name, U: e.D.Name, C: 8, F: 4096})
		}
	}
	// every conversion in turns with two other instantiations of its function
	for i, e := range convtab.Entries {
		Oracle.One(t, env, rec, "sweep", &Case{Op: "convInTurns", T: e.S.Name, U: e.D.Name, C: 1 + i%3, F: 5 + i%60, Window: i%2 == 0})
	}
	for _, sh := range shapes {
		for _, win := range []bool{false, true} {
			for _, e := range convtab.Entries {
				Oracle.One(t, env, rec, "sweep", &Case{Op: "conv", T: e.S.Name, U: e.D.Name, C: sh[0], F: sh[1], Window: win})
			}
			for _, tn := range names {
				for _, op := range SingleOps {
					Oracle.One(t, env, rec, "sweep", &Case{Op: op, T: tn, C: sh[0], F: sh[1], Window: win})
				}
				if !win {
					for _, op := range FirstCallOps {
						for C := 2; C <= 5; C++ {
							Oracle.One(t, env, rec, "sweep", &Case{Op: op, T: tn, C: C, F: sh[1] + C})
						}
					}
				}
				us := []string{tn, "int8", "float64", "uint64"}
				if env.Thorough() {
					us = names
				}
				for _, un := range us {
					for _, op := range PairOps {
						Oracle.One(t, env, rec, "sweep", &Case{Op: op, T: tn, U: un, C: sh[0], F: sh[1], Window: win})
					}
				}
			}
		}
	}
	rec.Exhaustive("every operation x every element type (169 conversions; Read/Write/striped with own, int8, float64, uint64 slice types; all 169 pairs in the thorough tier) x 3 (7) shapes x {whole buffer, window with spare capacity}", true)
}
