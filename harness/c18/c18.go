// Package c18 decides property C18: steady-state operations do not allocate.
package c18

import (
	"fmt"
	"runtime"
	"runtime/debug"

	"pgregory.net/rapid"
	"pipelined.dev/signal"
	"verif/harness/convtab"
	"verif/harness/kit"
)

const Property = "C18"

// Case: operation Op on buffers of element type T (and slice / destination
// type U), C channels, F frames; Window: the destination is a window with
// spare capacity inside a larger buffer.
type Case struct {
	Op     string `json:"op"`
	T      string `json:"t"`
	U      string `json:"u,omitempty"`
	C      int    `json:"c"`
	F      int    `json:"f"`
	Window bool   `json:"window,omitempty"`
}

// Sink keeps results alive so that the compiler cannot elide the operation.
var (
	SinkInt int
	SinkAny any
)

type prep func(c *Case) func()

var single = map[string]map[string]prep{} // op -> T -> prep

// firstCall: operations whose very first call on a freshly prepared object is measured (a warm-up
// call, as testing.AllocsPerRun makes, would absorb a one-time allocation). The prep returns the
// number of calls and a function making them, each on an object of its own.
type firstPrep func(*Case) (int, func())

var firstCall = map[string]map[string]firstPrep{}
var pair = map[string]map[string]prep{} // op -> "U/T" -> prep (U slice type, T buffer type)

func mkBuf[T signal.SignalTypes](c *Case) *signal.Buffer[T] {
	if c.Window {
		return signal.Alloc[T](signal.Allocator{Channels: c.C, Length: c.F + 2, Capacity: c.F + 6}).Slice(1, c.F+1)
	}
	return signal.Alloc[T](signal.Allocator{Channels: c.C, Length: c.F, Capacity: c.F})
}

func regSingle[T signal.SignalTypes](name string) {
	put := func(op string, p prep) {
		if single[op] == nil {
			single[op] = map[string]prep{}
		}
		single[op][name] = p
	}
	if firstCall["appendSampleOnFullGrownBuffer"] == nil {
		firstCall["appendSampleOnFullGrownBuffer"] = map[string]firstPrep{}
	}
	firstCall["appendSampleOnFullGrownBuffer"][name] = func(c *Case) (int, func()) {
		// buffers that a growing Append left with a partial last frame (so their capacity need not
		// be a whole number of frames), filled to exactly their storage capacity: one more
		// AppendSample is a no-op and must not allocate
		const n = 32
		var bufs []*signal.Buffer[T]
		for i := 0; i < n; i++ {
			b := signal.Alloc[T](signal.Allocator{Channels: c.C, Length: 0, Capacity: 1})
			b.AppendSample(1)
			src := signal.Alloc[T](signal.Allocator{Channels: c.C, Length: 0, Capacity: 3 + c.F%5})
			for k := 0; k < c.C*2+c.F%(c.C*2+1); k++ {
				src.AppendSample(2)
			}
			b.Append(src)
			for {
				l, cp, ok := kit.RawLenCap(b)
				if !ok {
					return 0, nil
				}
				if l >= cp {
					break
				}
				b.AppendSample(3)
				if l2, _, _ := kit.RawLenCap(b); l2 == l {
					break // refuses although the storage has room: not this operation's concern
				}
			}
			bufs = append(bufs, b)
		}
		return n, func() {
			for _, b := range bufs {
				b.AppendSample(4)
			}
		}
	}
	put("sampleGetSet", func(c *Case) func() {
		b := mkBuf[T](c)
		if b.Len() == 0 {
			return func() { SinkInt += b.Len() + b.Cap() + b.Length() + b.Capacity() + b.Channels() + int(b.BitDepth()) }
		}
		last := b.Len() - 1
		return func() {
			b.SetSample(last, b.Sample(0)+1)
			SinkInt += b.Len() + b.Cap() + b.Length() + b.Capacity() + b.Channels() + int(b.BitDepth())
		}
	})
	put("appendSampleBelowCapacity", func(c *Case) func() {
		b := signal.Alloc[T](signal.Allocator{Channels: c.C, Length: c.F, Capacity: c.F + 2})
		saved := *b
		return func() {
			for i := 0; i < c.C+1; i++ {
				b.AppendSample(3)
			}
			*b = saved // restore the header (struct assignment does not allocate)
		}
	})
	put("appendSampleAtCapacity", func(c *Case) func() {
		b := mkBuf[T](c).Slice(0, c.F)
		full := b.Slice(0, b.Capacity())
		return func() { full.AppendSample(3) }
	})
	put("appendWithinCapacity", func(c *Case) func() {
		b := signal.Alloc[T](signal.Allocator{Channels: c.C, Length: 1, Capacity: c.F + 3})
		if c.Window {
			b = signal.Alloc[T](signal.Allocator{Channels: c.C, Length: 3, Capacity: c.F + 6}).Slice(1, 2)
		}
		src := signal.Alloc[T](signal.Allocator{Channels: c.C, Length: c.F, Capacity: c.F})
		saved := *b
		return func() {
			b.Append(src)
			*b = saved
		}
	})
	put("appendWithinCapacityPartialFrames", func(c *Case) func() {
		// dst and src both end in a partial frame; together they fill dst's capacity
		// exactly (1 + (C*K-1) samples), so the append fits and must stay in place
		C, K := c.C, c.F+2
		b := signal.Alloc[T](signal.Allocator{Channels: C, Length: 0, Capacity: K})
		if c.Window {
			b = signal.Alloc[T](signal.Allocator{Channels: C, Length: 1, Capacity: K + 1}).Slice(1, 1)
		}
		src := signal.Alloc[T](signal.Allocator{Channels: C, Length: 0, Capacity: K})
		b.AppendSample(1)
		for i := 0; i < C*K-1; i++ {
			src.AppendSample(2)
		}
		saved := *b
		return func() {
			b.Append(src)
			*b = saved
		}
	})
	put("appendSiblingWindowWithinCapacity", func(c *Case) func() {
		// source and destination are disjoint windows of one parent (they share its storage)
		F := c.F
		parent := signal.Alloc[T](signal.Allocator{Channels: c.C, Length: 2*F + 4, Capacity: 2*F + 4})
		b := parent.Slice(0, 0)
		if c.Window {
			b = parent.Slice(1, 1)
		}
		src := parent.Slice(F+3, 2*F+3)
		saved := *b
		return func() {
			b.Append(src)
			*b = saved
		}
	})
	put("appendSelfWithinCapacity", func(c *Case) func() {
		b := signal.Alloc[T](signal.Allocator{Channels: c.C, Length: c.F, Capacity: 2*c.F + 1})
		if c.Window {
			b = signal.Alloc[T](signal.Allocator{Channels: c.C, Length: c.F + 1, Capacity: 2*c.F + 2}).Slice(1, c.F+1)
		}
		saved := *b
		return func() {
			b.Append(b)
			*b = saved
		}
	})
	put("channelViewGetSet", func(c *Case) func() {
		b := mkBuf[T](c)
		ch := c.C - 1
		if c.F == 0 {
			return func() {
				v := b.Channel(ch)
				SinkInt += v.Length() + v.Capacity() + v.Channels()
			}
		}
		i := c.F - 1
		return func() {
			v := b.Channel(ch)
			v.SetSample(i, v.Sample(0)+1)
			SinkInt += v.Length() + v.Capacity() + v.Channels() + v.BufferIndex(ch, i)
		}
	})
	put("poolCycle", func(c *Case) func() {
		p := signal.PoolAlloc[T](signal.Allocator{Channels: c.C, Length: 0, Capacity: c.F})
		pp := &p
		return func() {
			b := pp.Get()
			b.AppendSample(1)
			pp.Put(b)
		}
	})
	put("poolCycleAcrossCopies", func(c *Case) func() {
		// the allocator value is copied before its first use (e.g. handed to a producer and a
		// consumer by value); all copies share the pool, so getting through one and putting
		// through the other is still a steady-state cycle
		p := signal.PoolAlloc[T](signal.Allocator{Channels: c.C, Length: 0, Capacity: c.F})
		source, sink := p, p
		ps, pk := &source, &sink
		return func() {
			b := ps.Get()
			b.AppendSample(1)
			pk.Put(b)
		}
	})
	put("sliceEscaping", func(c *Case) func() {
		b := mkBuf[T](c)
		e := c.F
		return func() { SinkAny = b.Slice(0, e) }
	})
	put("sliceLocal", func(c *Case) func() {
		b := mkBuf[T](c)
		e := c.F
		return func() { SinkInt += b.Slice(e/2, e).Len() }
	})
}

func regPair[S, B signal.SignalTypes](s, b string) {
	put := func(op string, p prep) {
		if pair[op] == nil {
			pair[op] = map[string]prep{}
		}
		pair[op][s+"/"+b] = p
	}
	put("poolCyclesTwoTypes", func(c *Case) func() {
		// two pools of the same shape for two element types (the same type twice when S is B) are
		// alive together and their get/put cycles interleave: each stays a steady-state cycle
		a := signal.Allocator{Channels: c.C, Length: 0, Capacity: c.F}
		ps, pb := signal.PoolAlloc[S](a), signal.PoolAlloc[B](a)
		p1, p2 := &ps, &pb
		nested := c.Window
		return func() {
			x := p1.Get()
			x.AppendSample(1)
			if !nested {
				p1.Put(x)
			}
			y := p2.Get()
			y.AppendSample(1)
			p2.Put(y)
			if nested {
				p1.Put(x)
			}
		}
	})
	put("write", func(c *Case) func() {
		buf := mkBuf[B](c)
		in := make([]S, c.C*c.F+1)
		return func() { SinkInt += signal.Write(in, buf) }
	})
	put("read", func(c *Case) func() {
		buf := mkBuf[B](c)
		out := make([]S, c.C*c.F+1)
		return func() { SinkInt += signal.Read(buf, out) }
	})
	put("writeStriped", func(c *Case) func() {
		buf := mkBuf[B](c)
		in := make([][]S, c.C)
		for i := range in {
			if i%3 != 2 {
				in[i] = make([]S, c.F+i%2)
			}
		}
		return func() { SinkInt += signal.WriteStriped(in, buf) }
	})
	put("readStriped", func(c *Case) func() {
		buf := mkBuf[B](c)
		out := make([][]S, c.C)
		for i := range out {
			if i%3 != 2 {
				out[i] = make([]S, c.F+i%2)
			}
		}
		return func() { SinkInt += signal.ReadStriped(buf, out) }
	})
}

func regRow[S signal.SignalTypes](s string) {
	regPair[S, int](s, "int")
	regPair[S, int8](s, "int8")
	regPair[S, int16](s, "int16")
	regPair[S, int32](s, "int32")
	regPair[S, int64](s, "int64")
	regPair[S, uint](s, "uint")
	regPair[S, uint8](s, "uint8")
	regPair[S, uint16](s, "uint16")
	regPair[S, uint32](s, "uint32")
	regPair[S, uint64](s, "uint64")
	regPair[S, uintptr](s, "uintptr")
	regPair[S, float32](s, "float32")
	regPair[S, float64](s, "float64")
}

func init() {
	regSingle[int]("int")
	regSingle[int8]("int8")
	regSingle[int16]("int16")
	regSingle[int32]("int32")
	regSingle[int64]("int64")
	regSingle[uint]("uint")
	regSingle[uint8]("uint8")
	regSingle[uint16]("uint16")
	regSingle[uint32]("uint32")
	regSingle[uint64]("uint64")
	regSingle[uintptr]("uintptr")
	regSingle[float32]("float32")
	regSingle[float64]("float64")
	regRow[int]("int")
	regRow[int8]("int8")
	regRow[int16]("int16")
	regRow[int32]("int32")
	regRow[int64]("int64")
	regRow[uint]("uint")
	regRow[uint8]("uint8")
	regRow[uint16]("uint16")
	regRow[uint32]("uint32")
	regRow[uint64]("uint64")
	regRow[uintptr]("uintptr")
	regRow[float32]("float32")
	regRow[float64]("float64")
}

// Partners: up to two other instantiations of e's function, the next ones in the table with another
// destination width and with another source width.
func Partners(e *convtab.Entry) []*convtab.Entry {
	var out []*convtab.Entry
	idx := 0
	for i, o := range convtab.Entries {
		if o == e {
			idx = i
		}
	}
	n := len(convtab.Entries)
	for _, differs := range []func(o *convtab.Entry) bool{
		func(o *convtab.Entry) bool { return o.D.Bits != e.D.Bits },
		func(o *convtab.Entry) bool { return o.S.Bits != e.S.Bits },
	} {
		for k := 1; k < n; k++ {
			if o := convtab.Entries[(idx+k)%n]; o.Fn == e.Fn && differs(o) {
				out = append(out, o)
				break
			}
		}
	}
	return out
}

var SingleOps = []string{"sampleGetSet", "appendSampleBelowCapacity", "appendSampleAtCapacity", "appendWithinCapacity", "appendWithinCapacityPartialFrames", "appendSiblingWindowWithinCapacity", "appendSelfWithinCapacity", "channelViewGetSet", "poolCycle", "poolCycleAcrossCopies", "sliceEscaping", "sliceLocal"}
var FirstCallOps = []string{"appendSampleOnFullGrownBuffer"}
var PairOps = []string{"write", "read", "writeStriped", "readStriped", "poolCyclesTwoTypes"}

func Check(c *Case) (res kit.Result) {
	if c.C < 1 || c.C > 8 || c.F < 0 || c.F > 4096 {
		return
	}
	var op func()
	limit := 0.0
	switch {
	case c.Op == "conv":
		e := convtab.Lookup(c.T, c.U)
		if e == nil {
			return
		}
		op = e.Prepared(c.C, c.F, c.F+c.C%2, c.Window)
	case c.Op == "convInTurns":
		// one call of the instantiation, then one call of each of two other instantiations of the same
		// function (other destination widths, other source widths): the steady state of a program that
		// converts several formats must not allocate either, whatever was converted just before
		e := convtab.Lookup(c.T, c.U)
		if e == nil {
			return
		}
		ops := []func(){e.Prepared(c.C, c.F, c.F+c.C%2, c.Window)}
		for _, o := range Partners(e) {
			ops = append(ops, o.Prepared(c.C, c.F, c.F, false))
		}
		op = func() {
			for _, f := range ops {
				f()
			}
		}
	case single[c.Op] != nil:
		p := single[c.Op][c.T]
		if p == nil {
			return
		}
		op = p(c)
		if c.Op == "sliceEscaping" {
			limit = 1 // the constant-size view header
		}
	case pair[c.Op] != nil:
		p := pair[c.Op][c.U+"/"+c.T]
		if p == nil {
			return
		}
		op = p(c)
	case firstCall[c.Op] != nil:
		p := firstCall[c.Op][c.T]
		if p == nil || c.C < 2 {
			return
		}
		best, calls := ^uint64(0), 0
		for try := 0; try < 3; try++ {
			n, run := p(c)
			if run == nil {
				return
			}
			var m1, m2 runtime.MemStats
			runtime.ReadMemStats(&m1)
			run()
			runtime.ReadMemStats(&m2)
			if d := m2.Mallocs - m1.Mallocs; d < best {
				best = d
			}
			calls = n
		}
		// an allocation per call shows as at least `calls` objects in every one of the three attempts;
		// a stray allocation of the runtime's own does not
		if best >= uint64(calls)/2 {
			res.Failf("%s[%s] with %d channels (shape parameter %d): %d heap allocations during %d first calls on freshly prepared buffers, want 0", c.Op, c.T, c.C, c.F, best, calls)
			return
		}
		res.Class(c.Op)
		return
	default:
		return
	}
	// the exact number of heap objects allocated by `runs` calls (testing.AllocsPerRun divides in
	// integers: one allocation every few calls is reported as 0); the smallest of up to three
	// attempts, so that a stray allocation of the runtime's own is not held against the library
	runs := 100
	if c.C*c.F <= 4096 {
		runs = 300
	}
	allowed := uint64(limit * float64(runs))
	best := ^uint64(0)
	for try := 0; try < 3 && best > allowed; try++ {
		var total uint64
		if p, v := kit.Try(func() { total = TotalAllocs(runs, op) }); p {
			res.Failf("%s[%s,%s] with %d channels, %d frames panicked: %v", c.Op, c.T, c.U, c.C, c.F, v)
			return
		}
		if total < best {
			best = total
		}
	}
	if best > allowed {
		res.Failf("%s[%s%s] with %d channels, %d frames (window %v): %d heap allocations in %d calls (after a warm-up call, garbage collector off), want at most %d", c.Op, c.T, map[bool]string{true: "," + c.U, false: ""}[c.U != ""], c.C, c.F, c.Window, best, runs, allowed)
		return
	}
	if c.F >= 1 {
		res.Class(c.Op)
	}
	return
}

// TotalAllocs: heap objects allocated by runs calls of f after one warm-up call (first calls are
// measured separately, see firstCall), on one P and with the garbage collector off - a
// collection would empty the pools, whose refill is an allocation the property does not forbid.
func TotalAllocs(runs int, f func()) uint64 {
	defer runtime.GOMAXPROCS(runtime.GOMAXPROCS(1))
	defer debug.SetGCPercent(debug.SetGCPercent(-1))
	f()
	var m1, m2 runtime.MemStats
	runtime.ReadMemStats(&m1)
	for i := 0; i < runs; i++ {
		f()
	}
	runtime.ReadMemStats(&m2)
	return m2.Mallocs - m1.Mallocs
}

func FP(c *Case) uint64 {
	h := kit.NewHasher()
	h.Str(c.Op)
	h.Str(c.T)
	h.Str(c.U)
	w := 0
	if c.Window {
		w = 1
	}
	h.Ints([]int{c.C, c.F, w})
	return h.Sum()
}

var names = kit.BuiltinNames()

func Gen(t *rapid.T) *Case {
	c := &Case{C: rapid.IntRange(1, 8).Draw(t, "c"), Window: rapid.Bool().Draw(t, "window")}
	switch rapid.IntRange(0, 4).Draw(t, "fSel") {
	case 0:
		c.F = rapid.IntRange(0, 2).Draw(t, "fTiny")
	case 1:
		c.F = rapid.IntRange(256, 4096).Draw(t, "fBig")
	default:
		c.F = rapid.IntRange(0, 64).Draw(t, "f")
	}
	switch rapid.IntRange(0, 2).Draw(t, "group") {
	case 0:
		e := convtab.Entries[rapid.IntRange(0, len(convtab.Entries)-1).Draw(t, "inst")]
		c.Op, c.T, c.U = "conv", e.S.Name, e.D.Name
		if rapid.IntRange(0, 2).Draw(t, "inTurns") == 0 {
			c.Op = "convInTurns"
		}
	case 1:
		c.Op = rapid.SampledFrom(append(append([]string{}, SingleOps...), FirstCallOps...)).Draw(t, "op")
		c.T = rapid.SampledFrom(names).Draw(t, "t")
	default:
		c.Op = rapid.SampledFrom(PairOps).Draw(t, "op")
		c.T = rapid.SampledFrom(names).Draw(t, "t")
		c.U = rapid.SampledFrom(names).Draw(t, "u")
	}
	return c
}

var Oracle = kit.Oracle[Case]{Property: Property, Gen: Gen, Check: Check, FP: FP}

var _ = fmt.Sprint
