package c19

import (
	"fmt"
	"os"
	"sync"
	"testing"

	"pipelined.dev/signal"
	"verif/harness/convtab"

	"verif/harness/kit"
)

func TestRegress(t *testing.T) { Oracle.Regress(t) }
func TestRapid(t *testing.T)   { Oracle.Rapid(t) }
func TestReplay(t *testing.T)  { Oracle.Replay(t) }

// TestSweep: a deterministic grid in which every reader runs every read-only
// operation and every writer every writing operation.
func TestSweep(t *testing.T) {
	env := kit.GetEnv(Property)
	rec := kit.NewRecorder(env, "sweep")
	defer func() { rec.Flush(!t.Failed()) }()
	rep := env.Pick(2, 10)
	for ti, tn := range Types {
		for rwi, rw := range [][2]int{{2, 2}, {8, 8}, {16, 0}, {0, 16}, {3, 5}} {
			for _, procs := range []int{1, 2, 16} {
				R, W := rw[0], rw[1]
				F, span := 40, 32
				if procs == 16 { // a long buffer: writer windows of hundreds of samples with sizes that are not multiples of 8
					F, span = 8+101*kitMax(W, 1), 101*kitMax(W, 1)
				}
				C := []int{1, 2, 3, 9, 2, 16, 3}[(ti+rwi)%7] // also more channels than 8
				c := &Case{T: tn, C: C, F: F, RO: 8, Procs: procs, Repeat: rep, Partial: ((ti % 3) * (procs % 2)) % C, Frac: (rwi+procs)%2 == 0}
				c.Bounds = []int{8}
				for w := 0; w < W; w++ {
					c.Bounds = append(c.Bounds, 8+(w+1)*span/W)
				}
				for r := 0; r < R; r++ {
					var s []int
					for k := 0; k < 2*nReadOps; k++ {
						s = append(s, (k+r)%nReadOps)
					}
					c.Readers = append(c.Readers, s)
					c.Yield = append(c.Yield, 0x55<<uint(r%2)&0xff)
				}
				for w := 0; w < W; w++ {
					var s []int
					for k := 0; k < 2*nWriteOps; k++ {
						s = append(s, (k+w)%nWriteOps)
					}
					c.Writers = append(c.Writers, s)
					c.Yield = append(c.Yield, 0x33<<uint(w%2)&0xff)
				}
				Oracle.One(t, env, rec, "sweep", c)
			}
		}
	}
	// two writers whose windows meet exactly at the end of a buffer that ends in a partial frame: one
	// owns the partial frame, the other the spare capacity behind it
	for ti, tn := range Types {
		for _, C := range []int{2, 3, 5} {
			for partial := 1; partial < C; partial += 2 {
				F := 9 + ti
				c := &Case{T: tn, C: C, F: F, RO: 2, Partial: partial, Procs: 8, Repeat: rep, Pooled: (ti+C)%2 == 0}
				c.Bounds = []int{2, F + 1, F + spareFrames(c)}
				for w := 0; w < 2; w++ {
					var s []int
					for k := 0; k < 3*nWriteOps; k++ {
						s = append(s, (k+w)%nWriteOps)
					}
					c.Writers = append(c.Writers, s)
				}
				c.Readers = [][]int{{0, 1, 3, 5, 9, 10, 12}, {5, 4, 1, 6, 7, 8, 13}}
				c.Yield = []int{0x55, 0xaa, 0x33, 0xcc}
				Oracle.One(t, env, rec, "sweep", c)
			}
		}
	}
	// readers only, a buffer that ends in a partial frame with capacity behind it: every read-only entry point,
	// the striped read of everything (each channel as far as it has samples) among them
	for ti, tn := range Types {
		for _, sh := range [][3]int{{2, 6, 1}, {3, 4, 1}, {3, 7, 2}, {5, 3, 3}} {
			c := &Case{T: tn, C: sh[0], F: sh[1], RO: sh[1], Partial: sh[2], Bounds: []int{sh[1]}, Procs: []int{2, 8, 16}[ti%3], Repeat: rep, Pooled: ti%2 == 1, Frac: ti%3 == 0}
			for r := 0; r < 6; r++ {
				c.Readers = append(c.Readers, []int{14, (r + 1) % nReadOps, 14, 9, 14, (r*3 + 4) % nReadOps, 14})
				c.Yield = append(c.Yield, []int{0, 0x55, 0xaa, 0x0f}[r%4])
			}
			Oracle.One(t, env, rec, "sweep", c)
		}
	}
	// the shared buffer got its storage from a growing Append and nobody has asked for its capacity or sliced it yet
	for ti, tn := range Types {
		for _, sh := range [][3]int{{3, 5, 0}, {3, 5, 1}, {5, 3, 2}, {2, 9, 1}, {7, 2, 0}} {
			c := &Case{T: tn, C: sh[0], F: sh[1], RO: 1, Partial: sh[2], Grown: true, Procs: []int{2, 8, 16}[ti%3], Repeat: rep}
			c.Bounds = []int{1, 1 + (sh[1]-1)/2, sh[1]}
			c.Readers = [][]int{{1, 5, 3, 9}, {5, 1, 4, 10}, {1, 1, 5, 5}, {6, 7, 8, 0}}
			c.Writers = [][]int{{0, 1, 2, 3, 4, 5}, {5, 4, 3, 2, 1, 0}}
			c.Yield = []int{0, 0x55, 0, 0xaa, 0x0f, 0}
			Oracle.One(t, env, rec, "sweep", c)
		}
	}
	// long buffers (more than 65536 samples) read by many goroutines at once, mostly as conversion sources
	long := []string{"float64", "float32", "int16"}
	if env.Thorough() {
		long = Types
	}
	for _, tn := range long {
		c := &Case{T: tn, C: 2, F: 33001, RO: 33001, Bounds: []int{33001}, Procs: 16, Repeat: env.Pick(1, 3)}
		for r := 0; r < env.Pick(6, 8); r++ {
			c.Readers = append(c.Readers, []int{7, 7, 3, 7})
			c.Yield = append(c.Yield, r)
		}
		Oracle.One(t, env, rec, "sweep", c)
	}
	rec.Exhaustive("grid: 6 types x (readers,writers) in {(2,2),(8,8),(16,0),(0,16),(3,5)} x GOMAXPROCS in {1,2,16}, every read-only and writing entry point in every script; schedules are sampled, not enumerated", false)
}

func kitMax(a, b int) int {
	if a > b {
		return a
	}
	return b
}

// TestFirstUse runs in a process of its own (one per element type, see the
// driver's "extra" jobs): the very first library calls of the process that read
// the shared buffer come from several goroutines at once. Anything the library
// initialises lazily on first use (tables, caches) is then initialised under
// concurrency, which the sequential reference run of the other tests would
// otherwise always pre-empt.
func TestFirstUse(t *testing.T) {
	tn := os.Getenv("VERIF_FIRST_TYPE")
	if tn == "" {
		t.Skip("no VERIF_FIRST_TYPE")
	}
	env := kit.GetEnv(Property)
	rec := kit.NewRecorder(env, "firstuse-"+tn)
	defer func() { rec.Flush(!t.Failed()) }()
	const C, F, G = 2, 64, 8
	var partners []string
	for _, e := range convtab.Entries {
		if e.S.Name == tn {
			partners = append(partners, e.D.Name)
		}
	}
	c := &Case{T: tn, C: C, F: F, RO: F, Bounds: []int{F}, Procs: 16, Repeat: 1}
	shared := fill(c) // Alloc + SetSample only: no conversion or other entry point has run in this process yet
	// Every goroutine converts the shared buffer into a private destination of every partner type, in
	// a rotated order. The destinations are allocated before the start and nothing but the conversions
	// runs between the start barrier and the last of them: formatting and allocation go through
	// synchronised pools of the runtime and would order the goroutines, hiding a racy first use.
	P := len(partners)
	dsts := make([][]kit.AnyBuf, G)
	counts := make([][]int, G)
	for g := range dsts {
		counts[g] = make([]int, P)
		for k := 0; k < P; k++ {
			dsts[g] = append(dsts[g], kit.AllocAny(partners[(g*5+k)%P], signal.Allocator{Channels: C, Length: F, Capacity: F}))
		}
	}
	convs := make([][]*convtab.Entry, G)
	for g := range convs {
		for k := 0; k < P; k++ {
			convs[g] = append(convs[g], convtab.Lookup(tn, partners[(g*5+k)%P]))
		}
	}
	results := make([][]string, G)
	start := make(chan struct{})
	var wg sync.WaitGroup
	for g := 0; g < G; g++ {
		wg.Add(1)
		go func(g int) {
			defer wg.Done()
			<-start
			for k, e := range convs[g] {
				counts[g][k] = e.Convert(shared, dsts[g][k])
			}
			// then every other read-only entry point
			for code := 0; code < nReadOps; code++ {
				results[g] = append(results[g], readStep(c, shared, code, 0, code))
			}
		}(g)
	}
	close(start)
	wg.Wait()
	// sequential reference afterwards
	for g := 0; g < G; g++ {
		var got, want []string
		for k := 0; k < P; k++ {
			p := partners[(g*5+k)%P]
			got = append(got, fmt.Sprint(p, counts[g][k], dsts[g][k].Snap()))
			dst := kit.AllocAny(p, signal.Allocator{Channels: C, Length: F, Capacity: F})
			n := convtab.Lookup(tn, p).Convert(shared, dst)
			want = append(want, fmt.Sprint(p, n, dst.Snap()))
		}
		got = append(got, results[g]...)
		for code := 0; code < nReadOps; code++ {
			want = append(want, readStep(c, shared, code, 0, code))
		}
		for i := range want {
			if got[i] != want[i] {
				kit.Fail(t, env, "firstuse", c, fmt.Sprintf("first concurrent use of a %s buffer: goroutine %d step %d saw %.80s, sequentially %.80s", tn, g, i, got[i], want[i]))
			}
		}
	}
	rec.Bulk("firstConcurrentUse:"+tn, int64(G*(P+nReadOps)), int64(G*(P+nReadOps)))
	rec.Sample(map[string]any{"type": tn, "goroutines": G, "what": "first library calls of a fresh process: conversions into private destinations of every partner type (pre-allocated, nothing else in between) and every read-only entry point, from 8 goroutines at once"})
}
