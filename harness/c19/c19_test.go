package c19

import (
	"testing"

	"verif/harness/kit"
)

func TestRegress(t *testing.T) { Oracle.Regress(t) }
func TestRapid(t *testing.T)   { Oracle.Rapid(t) }
func TestReplay(t *testing.T)  { Oracle.Replay(t) }

// TestSweep: a deterministic grid in which every reader runs every read-only
// operation and every writer every writing operation.
func TestSweep(t *testing.T) {
	env := kit.GetEnv(Property)
	rec := kit.NewRecorder(env, "sweep")
	defer func() { rec.Flush(!t.Failed()) }()
	rep := env.Pick(2, 10)
	for ti, tn := range Types {
		for _, rw := range [][2]int{{2, 2}, {8, 8}, {16, 0}, {0, 16}, {3, 5}} {
			for _, procs := range []int{1, 2, 16} {
				R, W := rw[0], rw[1]
				F, span := 40, 32
				if procs == 16 { // a long buffer: writer windows of hundreds of samples with sizes that are not multiples of 8
					F, span = 8+101*kitMax(W, 1), 101*kitMax(W, 1)
				}
				c := &Case{T: tn, C: 1 + ti%3, F: F, RO: 8, Procs: procs, Repeat: rep}
				c.Bounds = []int{8}
				for w := 0; w < W; w++ {
					c.Bounds = append(c.Bounds, 8+(w+1)*span/W)
				}
				for r := 0; r < R; r++ {
					var s []int
					for k := 0; k < 2*nReadOps; k++ {
						s = append(s, (k+r)%nReadOps)
					}
					c.Readers = append(c.Readers, s)
					c.Yield = append(c.Yield, 0x55<<uint(r%2)&0xff)
				}
				for w := 0; w < W; w++ {
					var s []int
					for k := 0; k < 2*nWriteOps; k++ {
						s = append(s, (k+w)%nWriteOps)
					}
					c.Writers = append(c.Writers, s)
					c.Yield = append(c.Yield, 0x33<<uint(w%2)&0xff)
				}
				Oracle.One(t, env, rec, "sweep", c)
			}
		}
	}
	rec.Exhaustive("grid: 6 types x (readers,writers) in {(2,2),(8,8),(16,0),(0,16),(3,5)} x GOMAXPROCS in {1,2,16}, every read-only and writing entry point in every script; schedules are sampled, not enumerated", false)
}

func kitMax(a, b int) int {
	if a > b {
		return a
	}
	return b
}
