// Package c19 decides property C19: shared read-only use and disjoint-window
// writes are race-free and give the sequential results. Built with -race.
package c19

import (
	"fmt"
	"runtime"
	"strconv"
	"strings"
	"sync"

	"pgregory.net/rapid"
	"pipelined.dev/signal"
	"verif/harness/convtab"
	"verif/harness/kit"
)

const Property = "C19"

// Case: one shared buffer of C channels and F frames. Frames [0,RO) are
// read-only; writer w owns frames [Bounds[w], Bounds[w+1]) with Bounds[0] = RO.
// Every goroutine runs its script of operation codes; yield bit k of Yield[g]
// means runtime.Gosched() after step k mod 8.
type Case struct {
	T       string  `json:"t"`
	C       int     `json:"c"`
	F       int     `json:"f"`
	RO      int     `json:"ro"`
	Bounds  []int   `json:"bounds"`  // len W+1, non-decreasing, last <= F
	Readers [][]int `json:"readers"` // per reader: op codes
	Writers [][]int `json:"writers"` // per writer: op codes
	Yield   []int   `json:"yield"`   // per goroutine (readers first)
	Procs   int     `json:"procs"`
	Repeat  int     `json:"repeat"`
	Grown   bool    `json:"grown,omitempty"`   // the shared buffer got its storage from a growing Append (capacity chosen by the runtime, no spare frames assumed)
	Pooled  bool    `json:"pooled,omitempty"`  // the shared buffer is obtained from a pool allocator instead of Alloc
	Frac    bool    `json:"frac,omitempty"`    // floating-point buffers: every stored and written sample lies strictly inside (-1,1) (otherwise they are 1..110, all clipped by a conversion)
	Partial int     `json:"partial,omitempty"` // single samples appended to the shared buffer before the goroutines start (a partial last frame), < C
}

var Types = []string{"int8", "uint16", "int32", "int64", "float32", "float64", "NInt16", "NFloat32"}

const (
	nReadOps  = 15
	nWriteOps = 7
)

// twin: the element type of the same width on the other side (signed <-> unsigned, float32 <->
// float64) when the conversion table has both directions; "" otherwise.
func twin(t string) string {
	tw := map[string]string{"int8": "uint8", "uint16": "int16", "int32": "uint32", "int64": "uint64", "float32": "float64", "float64": "float32"}[t]
	if tw == "" || convtab.Lookup(t, tw) == nil || convtab.Lookup(tw, t) == nil {
		return ""
	}
	return tw
}

// other element type used as private conversion partner
func partner(t string) string {
	if kit.Info(t).Kind == kit.Float {
		return "int16"
	}
	return "float64"
}

// The reader results are rendered without package fmt: fmt recycles its printers through a
// sync.Pool, which orders the goroutines that share one and would hide unordered accesses of
// the library from the race detector.
func sVals(vs []kit.Val) string {
	var b strings.Builder
	b.WriteByte('[')
	for i, v := range vs {
		if i > 0 {
			b.WriteByte(' ')
		}
		b.WriteString(v.String())
	}
	b.WriteByte(']')
	return b.String()
}

func sRows(rows [][]kit.Val) string {
	var b strings.Builder
	for _, r := range rows {
		b.WriteString(sVals(r))
	}
	return b.String()
}

func sHdr(h kit.Hdr) string {
	var b strings.Builder
	for _, x := range []int{h.Len, h.Cap, h.Length, h.Capacity, h.Channels, h.BitDepth} {
		b.WriteString(strconv.Itoa(x))
		b.WriteByte('/')
	}
	return b.String()
}

// readStep runs read-only operation `code` as reader r at step k and returns a
// printable result.
func readStep(c *Case, shared kit.AnyBuf, code, r, k int) string {
	C := c.C
	switch code % nReadOps {
	case 0: // sample reads in the read-only range
		if c.RO == 0 {
			return "-"
		}
		i := (r*7 + k*3) % (C * c.RO)
		return shared.Get(i).String()
	case 1: // size methods of the shared header
		return sHdr(shared.Hdr())
	case 2:
		return strconv.Itoa(shared.BufferIndex(k%C, k%(c.F+1)))
	case 3: // interleaved read of the read-only range through a fresh slice
		v := shared.Slice(0, c.RO)
		out, n := v.ReadVals(C*c.RO + 1)
		return sVals(out) + " " + strconv.Itoa(n)
	case 4: // striped read
		v := shared.Slice(0, c.RO)
		lens := make([]int, C)
		for i := range lens {
			lens[i] = c.RO - i%2
			if lens[i] < 0 {
				lens[i] = 0
			}
		}
		out, n := v.ReadStripedVals(lens)
		return sRows(out) + " " + strconv.Itoa(n)
	case 5: // slicing the shared header anywhere, also into its spare capacity (no data access)
		a := k % (c.F + 1)
		v := shared.Slice(a, c.F+(k+r)%(spareFrames(c)+1))
		return sHdr(v.Hdr())
	case 6: // channel view reads
		if c.RO == 0 {
			return "-"
		}
		ch := shared.Channel((r + k) % C)
		return ch.Sample(k%c.RO).String() + " " + strconv.Itoa(ch.Length()) + " " + strconv.Itoa(ch.Capacity()) + " " + strconv.Itoa(ch.Channels())
	case 7: // conversion source into a private destination
		v := shared.Slice(0, c.RO)
		e := convtab.Lookup(c.T, partner(c.T))
		dst := kit.AllocAny(partner(c.T), signal.Allocator{Channels: C, Length: c.RO, Capacity: c.RO})
		n := e.Convert(v, dst)
		return sVals(dst.Snap()) + " " + strconv.Itoa(n)
	case 8: // nested slice + sample
		if c.RO == 0 {
			return "-"
		}
		v := shared.Slice(0, c.RO).Slice(c.RO/2, c.RO)
		if v.Len() == 0 {
			return "empty"
		}
		return v.Get(k % v.Len()).String()
	case 9: // striped read straight from the shared header, rows confined to the read-only frames
		lens := make([]int, C)
		for i := range lens {
			lens[i] = kit.Max(c.RO-(i+k)%2, 0)
		}
		out, n := shared.ReadStripedVals(lens)
		return sRows(out) + " " + strconv.Itoa(n)
	case 11: // conversion source into a private destination of the same-width twin type
		tw := twin(c.T)
		if tw == "" {
			return "-"
		}
		v := shared.Slice(0, c.RO)
		dst := kit.AllocAny(tw, signal.Allocator{Channels: C, Length: c.RO, Capacity: c.RO})
		n := convtab.Lookup(c.T, tw).Convert(v, dst)
		return sVals(dst.Snap()) + " " + strconv.Itoa(n)
	case 12, 13: // conversion straight from the shared header into a private destination that ends with the read-only frames:
		// a conversion reads min(source length, destination length) positions, so only read-only ones
		to := partner(c.T)
		if code%nReadOps == 13 {
			if to = twin(c.T); to == "" {
				return "-"
			}
		}
		dst := kit.AllocAny(to, signal.Allocator{Channels: C, Length: c.RO, Capacity: c.RO + k%2})
		n := convtab.Lookup(c.T, to).Convert(shared, dst)
		return sVals(dst.Snap()) + " " + strconv.Itoa(n)
	case 14: // no writers at all: the whole buffer is read-only. Striped read of everything, every channel
		// exactly as far as it has samples (the first Partial channels one frame further)
		if len(c.Writers) > 0 {
			return "-"
		}
		lens := make([]int, C)
		for i := range lens {
			lens[i] = c.F
			if i < c.Partial {
				lens[i]++
			}
		}
		out, n := shared.ReadStripedVals(lens)
		return sRows(out) + " " + strconv.Itoa(n)
	default: // short interleaved read straight from the shared header (only read-only positions are touched)
		out, n := shared.ReadVals(kit.Min(c.C*c.RO, 1+k%5))
		return sVals(out) + " " + strconv.Itoa(n)
	}
}

// writeStep runs writing operation `code` as writer w at step k inside its window.
func writeStep(c *Case, shared kit.AnyBuf, code, w, k int) {
	C := c.C
	s, e := c.Bounds[w], c.Bounds[w+1]
	win := shared.Slice(s, e)
	fr := e - s
	val := func(i int) kit.Val { return sampleVal(c, int64(1+(w*37+k*11+i)%110)) }
	// inputs are sometimes longer than the window (and never empty for an empty window): whatever
	// is offered, a writer's effects must stay inside its own frame range
	long := 0
	if k%3 == 1 || fr == 0 {
		long = 2
	}
	if op := code % nWriteOps; fr == 0 && op != 1 && op != 2 && op != 3 && op != 6 {
		return // nothing to address in an empty window
	}
	switch code % nWriteOps {
	case 0:
		win.Set((k*5)%(C*fr), val(0))
	case 1:
		vs := make([]kit.Val, kit.Max(C*(fr+long)-k%2, 0))
		for i := range vs {
			vs[i] = val(i)
		}
		win.WriteVals(vs)
	case 2:
		in := make([][]kit.Val, C)
		for ch := range in {
			if (ch+k)%3 == 2 {
				continue
			}
			in[ch] = make([]kit.Val, fr+long*((ch+k)%2))
			for i := range in[ch] {
				in[ch][i] = val(ch*3 + i)
			}
		}
		win.WriteStripedVals(in)
	case 3: // conversion destination, from a private source
		pt := partner(c.T)
		src := kit.AllocAny(pt, signal.Allocator{Channels: C, Length: fr + long, Capacity: fr + long})
		for i := 0; i < src.Len(); i++ {
			if kit.Info(pt).Kind == kit.Float {
				src.Set(i, kit.FV(float64((w+k+i)%9-4)/8))
			} else {
				src.Set(i, kit.IV(int64((w*13+k*7+i)%200-100)))
			}
		}
		convtab.Lookup(pt, c.T).Convert(src, win)
	case 6: // conversion destination from a private source of the same-width twin type
		tw := twin(c.T)
		if tw == "" || fr == 0 {
			return
		}
		src := kit.AllocAny(tw, signal.Allocator{Channels: C, Length: fr + long, Capacity: fr + long})
		for i := 0; i < src.Len(); i++ {
			if kit.Info(tw).Kind == kit.Float {
				src.Set(i, kit.FV(float64((w+k+i)%9-4)/8))
			} else {
				src.Set(i, kit.IV(int64((w*11+k*5+i)%100)))
			}
		}
		convtab.Lookup(tw, c.T).Convert(src, win)
	case 4:
		win.Channel((w+k)%C).SetSample(k%fr, val(1))
	default: // read back own window (a writer may read what it owns)
		_ = win.Get((k * 3) % (C * fr))
	}
}

func valid(c *Case) bool {
	okT := false
	for _, t := range Types {
		okT = okT || t == c.T
	}
	if !okT || c.C < 1 || c.C > 128 || (c.C > 8 && c.F > 4096) || c.F < 0 || c.F > 1<<17 || c.RO < 0 || c.RO > c.F || len(c.Bounds) != len(c.Writers)+1 ||
		len(c.Readers)+len(c.Writers) > 16 || len(c.Readers)+len(c.Writers) < 1 || len(c.Yield) != len(c.Readers)+len(c.Writers) ||
		c.Procs < 1 || c.Procs > 64 || c.Repeat < 1 || c.Repeat > 50 || c.Partial < 0 || c.Partial >= c.C {
		return false
	}
	prev := c.RO
	for i, b := range c.Bounds {
		if (i == 0 && b != c.RO) || b < prev || b > c.F+spareFrames(c) { // writer windows may reach into the spare capacity
			return false
		}
		prev = b
	}
	for _, s := range append(append([][]int{}, c.Readers...), c.Writers...) {
		if len(s) > 200 {
			return false
		}
		for _, code := range s {
			if code < 0 {
				return false
			}
		}
	}
	return true
}

// spareFrames: frames of capacity beyond the length of the shared buffer (none
// are assumed for a buffer that got its storage from a growing Append: its
// capacity is the runtime's choice).
func spareFrames(c *Case) int {
	if c.Grown {
		return 0
	}
	return 2 + c.F%3
}

// sampleVal: the sample stored for the small positive integer x (1..110): x itself, or with
// c.Frac in a floating-point buffer the fraction (x'-55.5)/64 with x' = x reduced to 1..110, strictly inside (-1,1).
func sampleVal(c *Case, x int64) kit.Val {
	if c.Frac && kit.Info(c.T).Kind == kit.Float {
		return kit.FV((float64((x-1)%110+1) - 55.5) / 64)
	}
	return kit.IV(x)
}

func fill(c *Case) kit.AnyBuf {
	spare := spareFrames(c)
	al := signal.Allocator{Channels: c.C, Length: c.F, Capacity: c.F + spare}
	b := kit.AllocAny(c.T, al)
	if c.Grown && c.C*c.F+c.Partial >= 2 {
		// the shared buffer got its storage from a growing Append (one sample, then the rest appended);
		// nothing else touches its header before the goroutines start - in particular neither Cap()
		// nor Slice() is called on it, so anything those do lazily happens concurrently
		n := c.C*c.F + c.Partial
		g := kit.AllocAny(c.T, signal.Allocator{Channels: c.C, Length: 0, Capacity: 1})
		val := func(i int) kit.Val {
			if i < c.C*c.F {
				return sampleVal(c, int64(1+i%100))
			}
			return sampleVal(c, int64(101+i-c.C*c.F))
		}
		g.AppendSample(val(0))
		src := kit.AllocAny(c.T, signal.Allocator{Channels: c.C, Length: 0, Capacity: n/c.C + 1})
		for i := 1; i < n; i++ {
			src.AppendSample(val(i))
		}
		g.Append(src)
		return g
	}
	if c.Pooled {
		// the shared buffer comes out of a pool (after one round trip through it)
		pool := kit.NewAnyPool(c.T, al)
		first := pool.Get()
		first.AppendSample(kit.IV(3))
		pool.Put(first)
		b = pool.Get()
	}
	for i := 0; i < b.Len(); i++ {
		b.Set(i, sampleVal(c, int64(1+i%100)))
	}
	for k := 0; k < c.Partial; k++ {
		b.AppendSample(sampleVal(c, int64(101+k)))
	}
	return b
}

func Check(c *Case) (res kit.Result) {
	if !valid(c) {
		return
	}
	R, W := len(c.Readers), len(c.Writers)
	// sequential reference: readers on an untouched buffer, then each writer's script
	ref := fill(c)
	wantRead := make([][]string, R)
	for r, script := range c.Readers {
		for k, code := range script {
			wantRead[r] = append(wantRead[r], readStep(c, ref, code, r, k))
		}
	}
	for w, script := range c.Writers {
		for k, code := range script {
			writeStep(c, ref, code, w, k)
		}
	}
	capFrames := c.F + spareFrames(c)
	wantFinal := ref.Slice(0, capFrames).Snap() // the whole capacity, not only the length
	refHdr := ref.Hdr()

	prev := runtime.GOMAXPROCS(c.Procs)
	defer runtime.GOMAXPROCS(prev)
	for rep := 0; rep < c.Repeat; rep++ {
		shared := fill(c)
		gotRead := make([][]string, R)
		panics := make([]string, R+W)
		start := make(chan struct{})
		var wg sync.WaitGroup
		for r := 0; r < R; r++ {
			wg.Add(1)
			go func(r int) {
				defer wg.Done()
				defer func() {
					if p := recover(); p != nil {
						panics[r] = fmt.Sprintf("reader %d panicked: %v", r, p)
					}
				}()
				<-start
				for k, code := range c.Readers[r] {
					gotRead[r] = append(gotRead[r], readStep(c, shared, code, r, k))
					if c.Yield[r]>>(uint(k)%8)&1 != 0 {
						runtime.Gosched()
					}
				}
			}(r)
		}
		for w := 0; w < W; w++ {
			wg.Add(1)
			go func(w int) {
				defer wg.Done()
				defer func() {
					if p := recover(); p != nil {
						panics[R+w] = fmt.Sprintf("writer %d panicked: %v", w, p)
					}
				}()
				<-start
				for k, code := range c.Writers[w] {
					writeStep(c, shared, code, w, k)
					if c.Yield[R+w]>>(uint(k)%8)&1 != 0 {
						runtime.Gosched()
					}
				}
			}(w)
		}
		close(start)
		wg.Wait()
		for _, p := range panics {
			if p != "" {
				res.Failf("run %d: %s", rep+1, p)
				return
			}
		}
		for r := range gotRead {
			for k := range wantRead[r] {
				if k >= len(gotRead[r]) || gotRead[r][k] != wantRead[r][k] {
					got := "<missing>"
					if k < len(gotRead[r]) {
						got = gotRead[r][k]
					}
					res.Failf("run %d: reader %d step %d (op %d) saw %s concurrently, %s sequentially", rep+1, r, k, c.Readers[r][k]%nReadOps, got, wantRead[r][k])
					return
				}
			}
		}
		if d := kit.DiffVals("shared buffer (whole capacity) after the concurrent run vs the sequential run", shared.Slice(0, capFrames).Snap(), wantFinal); d != "" {
			res.Failf("run %d: %s", rep+1, d)
			return
		}
		if shared.Hdr() != refHdr {
			res.Failf("run %d: shared header changed to %+v", rep+1, shared.Hdr())
			return
		}
	}
	if R >= 2 && W >= 2 && c.Procs >= 2 {
		res.Class("twoPlusReadersAndWritersParallel")
	}
	if R >= 2 {
		res.Class("concurrentReaders")
		if c.Pooled {
			res.Class("sharedBufferFromAPool")
		}
		if c.Frac && kit.Info(c.T).Kind == kit.Float {
			res.Class("floatSamplesInsideUnitRange")
		}
	}
	if W >= 2 {
		res.Class("concurrentDisjointWriters")
	}
	return
}

func FP(c *Case) uint64 {
	h := kit.NewHasher()
	h.Str(c.T)
	h.Ints([]int{c.C, c.F, c.RO, c.Procs, c.Repeat, c.Partial})
	if c.Pooled {
		h.Int(1)
	}
	if c.Grown {
		h.Int(2)
	}
	if c.Frac {
		h.Int(3)
	}
	h.Ints(c.Bounds)
	h.Ints(c.Yield)
	for _, s := range c.Readers {
		h.Ints(s)
	}
	for _, s := range c.Writers {
		h.Ints(s)
	}
	return h.Sum()
}

func Gen(t *rapid.T) *Case {
	c := &Case{T: rapid.SampledFrom(Types).Draw(t, "type"), C: rapid.IntRange(1, 4).Draw(t, "c")}
	c.F = rapid.IntRange(0, 48).Draw(t, "f")
	if rapid.IntRange(0, 3).Draw(t, "bigF") == 0 { // windows of hundreds of samples, with odd sizes
		c.F = rapid.IntRange(100, 700).Draw(t, "fBig")
	}
	if rapid.IntRange(0, 4).Draw(t, "wideSel") == 0 { // more channels than 8 (rarely more than 64), fewer frames
		c.C = rapid.IntRange(5, 17).Draw(t, "cWide")
		if kit.Chance(t, "cHuge", 1, 8) {
			c.C = rapid.IntRange(60, 70).Draw(t, "cHuge")
		}
		if c.F > 64 {
			c.F = 40 + c.F%25
		}
	}
	c.RO = rapid.IntRange(0, c.F).Draw(t, "ro")
	total := rapid.IntRange(2, 16).Draw(t, "goroutines")
	R := rapid.IntRange(0, total).Draw(t, "readers")
	W := total - R
	c.Bounds = []int{c.RO}
	for w := 0; w < W; w++ {
		last := c.Bounds[len(c.Bounds)-1]
		c.Bounds = append(c.Bounds, rapid.IntRange(last, kit.Max(last, c.F)).Draw(t, "bound"))
	}
	if W >= 1 && rapid.IntRange(0, 2).Draw(t, "intoSpare") == 0 {
		// the last writers' windows reach into the spare capacity; a boundary may sit exactly at the
		// end of the length (frame F, or F+1 when the buffer ends in a partial frame)
		top := c.F + spareFrames(c)
		c.Bounds[W] = rapid.IntRange(kit.Max(c.Bounds[W], c.F), top).Draw(t, "spareEnd")
		if W >= 2 {
			c.Bounds[W-1] = rapid.IntRange(kit.Max(c.Bounds[W-2], kit.Min(c.F, c.Bounds[W])), c.Bounds[W]).Draw(t, "spareCut")
			if rapid.Bool().Draw(t, "cutAtLength") {
				if cut := c.F + 1; cut >= c.Bounds[W-2] && cut <= c.Bounds[W] {
					c.Bounds[W-1] = cut
				}
			}
		}
	}
	steps := rapid.IntRange(1, 40).Draw(t, "steps")
	for r := 0; r < R; r++ {
		var s []int
		for k := 0; k < steps; k++ {
			s = append(s, rapid.IntRange(0, nReadOps-1).Draw(t, "rop"))
		}
		c.Readers = append(c.Readers, s)
	}
	for w := 0; w < W; w++ {
		var s []int
		for k := 0; k < steps; k++ {
			s = append(s, rapid.IntRange(0, nWriteOps-1).Draw(t, "wop"))
		}
		c.Writers = append(c.Writers, s)
	}
	for g := 0; g < total; g++ {
		c.Yield = append(c.Yield, rapid.IntRange(0, 255).Draw(t, "yield"))
	}
	c.Procs = rapid.SampledFrom([]int{1, 2, 4, 8, 16}).Draw(t, "procs")
	c.Pooled = rapid.IntRange(0, 2).Draw(t, "pooled") == 0
	if rapid.IntRange(0, 3).Draw(t, "grown") == 0 && c.F >= 1 {
		// no spare frames are assumed: the windows must end at the length
		c.Grown, c.Pooled = true, false
		for i := range c.Bounds {
			if c.Bounds[i] > c.F {
				c.Bounds[i] = c.F
			}
		}
	}
	c.Repeat = 1
	c.Frac = rapid.Bool().Draw(t, "frac")
	if c.C >= 2 && rapid.IntRange(0, 2).Draw(t, "partialSel") == 0 {
		c.Partial = rapid.IntRange(1, c.C-1).Draw(t, "partial")
	}
	return c
}

var Oracle = kit.Oracle[Case]{Property: Property, Gen: Gen, Check: Check, FP: FP}
