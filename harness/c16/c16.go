// Package c16 decides property C16: bit-depth arithmetic is exact for every
// depth from 1 to 64.
package c16

import (
	"fmt"
	"math/big"
	"sort"

	"golang.org/x/exp/constraints"
	"pgregory.net/rapid"
	"pipelined.dev/signal"
	"verif/harness/kit"
)

const Property = "C16"

// Case: depth B in 1..64 with signed and unsigned values to clip, and one
// Scale[T](H,L) query with H >= L.
type Case struct {
	B  int      `json:"b"`
	Vs []int64  `json:"vs,omitempty"`
	Us []uint64 `json:"us,omitempty"`
	T  string   `json:"t,omitempty"`
	H  int      `json:"h,omitempty"`
	L  int      `json:"l,omitempty"`
	// Order: which of the six groups of calls (MaxSignedValue, MinSignedValue, MaxUnsignedValue,
	// SignedValue, UnsignedValue, Scale) comes first, second, ... : the index of a permutation
	// (0 = the order listed). Fresh: the case is evaluated in a fresh process (kit.Oracle.Fresh),
	// so that these are the first library calls of a process, in that order.
	Order int  `json:"order,omitempty"`
	Fresh bool `json:"fresh,omitempty"`
}

// perm decodes a permutation of 0..n-1 from its index (factorial number system).
func perm(idx, n int) []int {
	pool := make([]int, n)
	for i := range pool {
		pool[i] = i
	}
	out := make([]int, 0, n)
	for i := n; i >= 1; i-- {
		k := idx % i
		idx /= i
		out = append(out, pool[k])
		pool = append(pool[:k], pool[k+1:]...)
	}
	return out
}

type scaleFn func(h, l signal.BitDepth) *big.Int

func mkScale[T constraints.Integer](signed bool) scaleFn {
	return func(h, l signal.BitDepth) *big.Int {
		v := signal.Scale[T](h, l)
		if signed {
			return big.NewInt(int64(v))
		}
		return new(big.Int).SetUint64(uint64(v))
	}
}

var scales = map[string]scaleFn{
	"int": mkScale[int](true), "int8": mkScale[int8](true), "int16": mkScale[int16](true), "int32": mkScale[int32](true), "int64": mkScale[int64](true),
	"uint": mkScale[uint](false), "uint8": mkScale[uint8](false), "uint16": mkScale[uint16](false), "uint32": mkScale[uint32](false),
	"uint64": mkScale[uint64](false), "uintptr": mkScale[uintptr](false),
}

var IntTypes = kit.BuiltinNames(kit.Signed, kit.Unsigned)

func pow2(n int) *big.Int { return new(big.Int).Lsh(big.NewInt(1), uint(n)) }

func Check(c *Case) (res kit.Result) {
	if c.B < 1 || c.B > 64 || len(c.Vs) > 1<<16 || len(c.Us) > 1<<16 || c.Order < 0 || c.Order >= 720 {
		return
	}
	if c.Fresh {
		inner := *c
		inner.Fresh = false
		return kit.FreshRun(&inner)
	}
	if c.T != "" {
		if _, ok := scales[c.T]; !ok || c.L < 1 || c.H > 64 || c.H < c.L {
			return kit.Result{}
		}
	}
	steps := []func() bool{
		func() bool { return checkMaxSigned(c, &res) }, func() bool { return checkMinSigned(c, &res) }, func() bool { return checkMaxUnsigned(c, &res) },
		func() bool { return checkSignedValues(c, &res) }, func() bool { return checkUnsignedValues(c, &res) }, func() bool { return checkScale(c, &res) },
	}
	for _, i := range perm(c.Order, len(steps)) {
		if !steps[i]() {
			return
		}
	}
	if c.B != 8 {
		res.Class("depthOtherThan8")
	}
	if c.Order != 0 {
		res.Class("callsInAnotherOrder")
	}
	return
}

func bounds(c *Case) (b signal.BitDepth, wantMax, wantMin, wantMaxU *big.Int) {
	one := big.NewInt(1)
	return signal.BitDepth(c.B), new(big.Int).Sub(pow2(c.B-1), one), new(big.Int).Neg(pow2(c.B - 1)), new(big.Int).Sub(pow2(c.B), one)
}

func checkMaxSigned(c *Case, res *kit.Result) bool {
	b, wantMax, _, _ := bounds(c)
	if got := big.NewInt(b.MaxSignedValue()); got.Cmp(wantMax) != 0 {
		res.Failf("BitDepth(%d).MaxSignedValue() = %s, want %s", c.B, got, wantMax)
		return false
	}
	return true
}

func checkMinSigned(c *Case, res *kit.Result) bool {
	b, _, wantMin, _ := bounds(c)
	if got := big.NewInt(b.MinSignedValue()); got.Cmp(wantMin) != 0 {
		res.Failf("BitDepth(%d).MinSignedValue() = %s, want %s", c.B, got, wantMin)
		return false
	}
	return true
}

func checkMaxUnsigned(c *Case, res *kit.Result) bool {
	b, _, _, wantMaxU := bounds(c)
	if got := new(big.Int).SetUint64(b.MaxUnsignedValue()); got.Cmp(wantMaxU) != 0 {
		res.Failf("BitDepth(%d).MaxUnsignedValue() = %s, want %s", c.B, got, wantMaxU)
		return false
	}
	return true
}

func checkSignedValues(c *Case, res *kit.Result) bool {
	b, wantMax, wantMin, _ := bounds(c)
	vs := append([]int64(nil), c.Vs...)
	sort.Slice(vs, func(i, j int) bool { return vs[i] < vs[j] })
	var prev int64
	for i, v := range vs {
		want := big.NewInt(v)
		if want.Cmp(wantMax) > 0 {
			want = wantMax
		}
		if want.Cmp(wantMin) < 0 {
			want = wantMin
		}
		got := b.SignedValue(v)
		if big.NewInt(got).Cmp(want) != 0 {
			res.Failf("BitDepth(%d).SignedValue(%d) = %d, want %s", c.B, v, got, want)
			return false
		}
		if again := b.SignedValue(got); again != got {
			res.Failf("BitDepth(%d).SignedValue is not idempotent: %d -> %d -> %d", c.B, v, got, again)
			return false
		}
		if i > 0 && got < prev {
			res.Failf("BitDepth(%d).SignedValue is not order-preserving: %d -> %d after %d -> %d", c.B, v, got, vs[i-1], prev)
			return false
		}
		prev = got
	}
	return true
}

func checkUnsignedValues(c *Case, res *kit.Result) bool {
	b, _, _, wantMaxU := bounds(c)
	us := append([]uint64(nil), c.Us...)
	sort.Slice(us, func(i, j int) bool { return us[i] < us[j] })
	var uprev uint64
	for i, u := range us {
		want := new(big.Int).SetUint64(u)
		if want.Cmp(wantMaxU) > 0 {
			want = wantMaxU
		}
		got := b.UnsignedValue(u)
		if new(big.Int).SetUint64(got).Cmp(want) != 0 {
			res.Failf("BitDepth(%d).UnsignedValue(%d) = %d, want %s", c.B, u, got, want)
			return false
		}
		if again := b.UnsignedValue(got); again != got {
			res.Failf("BitDepth(%d).UnsignedValue is not idempotent: %d -> %d -> %d", c.B, u, got, again)
			return false
		}
		if i > 0 && got < uprev {
			res.Failf("BitDepth(%d).UnsignedValue is not order-preserving", c.B)
			return false
		}
		uprev = got
	}
	return true
}

func checkScale(c *Case, res *kit.Result) bool {
	if c.T != "" {
		f := scales[c.T]
		ti := kit.Info(c.T)
		_, hi := kit.IntRange(ti)
		want := pow2(c.H - c.L)
		// the call is made for every (type, h, l); its result is only specified when 2^(h-l) fits the type
		var got *big.Int
		if p, v := kit.Try(func() { got = f(signal.BitDepth(c.H), signal.BitDepth(c.L)) }); p {
			res.Failf("Scale[%s](%d,%d) panicked: %v", c.T, c.H, c.L, v)
			return false
		}
		if want.Cmp(new(big.Int).SetUint64(hi)) <= 0 { // "whenever that fits the integer type"
			if got.Cmp(want) != 0 {
				res.Failf("Scale[%s](%d,%d) = %s, want 2^%d = %s", c.T, c.H, c.L, got, c.H-c.L, want)
				return false
			}
			res.Class("scale")
		}
	}
	return true
}

func FP(c *Case) uint64 {
	h := kit.NewHasher()
	h.Ints([]int{c.B, c.H, c.L, len(c.Vs), len(c.Us), c.Order})
	if c.Fresh {
		h.Int(1)
	}
	h.Str(c.T)
	for _, v := range c.Vs {
		h.U64(uint64(v))
	}
	for _, u := range c.Us {
		h.U64(u)
	}
	return h.Sum()
}

// BoundaryInts: all int64 within +-3 of 0, +-2^k, 2^k-1 and the type bounds.
func BoundaryInts() (vs []int64, us []uint64) {
	sset, uset := map[int64]bool{}, map[uint64]bool{}
	for off := int64(-3); off <= 3; off++ {
		sset[off] = true
		sset[int64(-1<<63)+3+off] = true
		sset[int64(1<<63-1)-3+off] = true
		uset[uint64(3+off)] = true
		uset[^uint64(0)-uint64(3+off)] = true
		for k := 0; k < 64; k++ {
			if k < 63 {
				sset[int64(1)<<k+off] = true
				sset[-(int64(1)<<k)+off] = true
			}
			uset[uint64(1)<<k+uint64(off)] = true
		}
	}
	for v := range sset {
		vs = append(vs, v)
	}
	for u := range uset {
		us = append(us, u)
	}
	sort.Slice(vs, func(i, j int) bool { return vs[i] < vs[j] })
	sort.Slice(us, func(i, j int) bool { return us[i] < us[j] })
	return
}

func Gen(t *rapid.T) *Case {
	c := &Case{B: rapid.IntRange(1, 64).Draw(t, "b")}
	n := rapid.IntRange(0, 12).Draw(t, "n")
	for i := 0; i < n; i++ {
		switch rapid.IntRange(0, 2).Draw(t, "sel") {
		case 0: // around the depth's own bounds
			k := c.B - 1 - rapid.IntRange(0, 1).Draw(t, "k")
			if k < 0 {
				k = 0
			}
			off := int64(rapid.IntRange(-3, 3).Draw(t, "off"))
			v := int64(uint64(1)<<uint(k)) + off
			if rapid.Bool().Draw(t, "neg") {
				v = -int64(uint64(1)<<uint(k)) + off
			}
			c.Vs = append(c.Vs, v)
			c.Us = append(c.Us, uint64(1)<<uint(c.B%64)+uint64(off))
		default:
			c.Vs = append(c.Vs, rapid.Int64().Draw(t, "v"))
			c.Us = append(c.Us, rapid.Uint64().Draw(t, "u"))
		}
	}
	if rapid.Bool().Draw(t, "withScale") {
		c.T = rapid.SampledFrom(IntTypes).Draw(t, "t")
		c.L = rapid.IntRange(1, 64).Draw(t, "l")
		c.H = rapid.IntRange(c.L, 64).Draw(t, "h")
	}
	if rapid.Bool().Draw(t, "reorder") {
		c.Order = rapid.IntRange(0, 719).Draw(t, "order")
	}
	c.Fresh = kit.Chance(t, "fresh", 1, 2500)
	return c
}

var Oracle = kit.Oracle[Case]{Property: Property, Gen: Gen, Check: Check, FP: FP}

var _ = fmt.Sprint
