// Package c16 decides property C16: bit-depth arithmetic is exact for every
// depth from 1 to 64.
package c16

import (
	"fmt"
	"math/big"
	"sort"

	"golang.org/x/exp/constraints"
	"pgregory.net/rapid"
	"pipelined.dev/signal"
	"verif/harness/kit"
)

const Property = "C16"

// Case: depth B in 1..64 with signed and unsigned values to clip, and one
// Scale[T](H,L) query with H >= L.
type Case struct {
	B  int      `json:"b"`
	Vs []int64  `json:"vs,omitempty"`
	Us []uint64 `json:"us,omitempty"`
	T  string   `json:"t,omitempty"`
	H  int      `json:"h,omitempty"`
	L  int      `json:"l,omitempty"`
}

type scaleFn func(h, l signal.BitDepth) *big.Int

func mkScale[T constraints.Integer](signed bool) scaleFn {
	return func(h, l signal.BitDepth) *big.Int {
		v := signal.Scale[T](h, l)
		if signed {
			return big.NewInt(int64(v))
		}
		return new(big.Int).SetUint64(uint64(v))
	}
}

var scales = map[string]scaleFn{
	"int": mkScale[int](true), "int8": mkScale[int8](true), "int16": mkScale[int16](true), "int32": mkScale[int32](true), "int64": mkScale[int64](true),
	"uint": mkScale[uint](false), "uint8": mkScale[uint8](false), "uint16": mkScale[uint16](false), "uint32": mkScale[uint32](false),
	"uint64": mkScale[uint64](false), "uintptr": mkScale[uintptr](false),
}

var IntTypes = kit.BuiltinNames(kit.Signed, kit.Unsigned)

func pow2(n int) *big.Int { return new(big.Int).Lsh(big.NewInt(1), uint(n)) }

func Check(c *Case) (res kit.Result) {
	if c.B < 1 || c.B > 64 || len(c.Vs) > 1<<16 || len(c.Us) > 1<<16 {
		return
	}
	b := signal.BitDepth(c.B)
	one := big.NewInt(1)
	wantMax := new(big.Int).Sub(pow2(c.B-1), one)
	wantMin := new(big.Int).Neg(pow2(c.B - 1))
	wantMaxU := new(big.Int).Sub(pow2(c.B), one)
	if got := big.NewInt(b.MaxSignedValue()); got.Cmp(wantMax) != 0 {
		res.Failf("BitDepth(%d).MaxSignedValue() = %s, want %s", c.B, got, wantMax)
		return
	}
	if got := big.NewInt(b.MinSignedValue()); got.Cmp(wantMin) != 0 {
		res.Failf("BitDepth(%d).MinSignedValue() = %s, want %s", c.B, got, wantMin)
		return
	}
	if got := new(big.Int).SetUint64(b.MaxUnsignedValue()); got.Cmp(wantMaxU) != 0 {
		res.Failf("BitDepth(%d).MaxUnsignedValue() = %s, want %s", c.B, got, wantMaxU)
		return
	}
	vs := append([]int64(nil), c.Vs...)
	sort.Slice(vs, func(i, j int) bool { return vs[i] < vs[j] })
	var prev int64
	for i, v := range vs {
		want := big.NewInt(v)
		if want.Cmp(wantMax) > 0 {
			want = wantMax
		}
		if want.Cmp(wantMin) < 0 {
			want = wantMin
		}
		got := b.SignedValue(v)
		if big.NewInt(got).Cmp(want) != 0 {
			res.Failf("BitDepth(%d).SignedValue(%d) = %d, want %s", c.B, v, got, want)
			return
		}
		if again := b.SignedValue(got); again != got {
			res.Failf("BitDepth(%d).SignedValue is not idempotent: %d -> %d -> %d", c.B, v, got, again)
			return
		}
		if i > 0 && got < prev {
			res.Failf("BitDepth(%d).SignedValue is not order-preserving: %d -> %d after %d -> %d", c.B, v, got, vs[i-1], prev)
			return
		}
		prev = got
	}
	us := append([]uint64(nil), c.Us...)
	sort.Slice(us, func(i, j int) bool { return us[i] < us[j] })
	var uprev uint64
	for i, u := range us {
		want := new(big.Int).SetUint64(u)
		if want.Cmp(wantMaxU) > 0 {
			want = wantMaxU
		}
		got := b.UnsignedValue(u)
		if new(big.Int).SetUint64(got).Cmp(want) != 0 {
			res.Failf("BitDepth(%d).UnsignedValue(%d) = %d, want %s", c.B, u, got, want)
			return
		}
		if again := b.UnsignedValue(got); again != got {
			res.Failf("BitDepth(%d).UnsignedValue is not idempotent: %d -> %d -> %d", c.B, u, got, again)
			return
		}
		if i > 0 && got < uprev {
			res.Failf("BitDepth(%d).UnsignedValue is not order-preserving", c.B)
			return
		}
		uprev = got
	}
	if c.T != "" {
		f, ok := scales[c.T]
		if !ok || c.L < 1 || c.H > 64 || c.H < c.L {
			return kit.Result{}
		}
		ti := kit.Info(c.T)
		_, hi := kit.IntRange(ti)
		want := pow2(c.H - c.L)
		// the call is made for every (type, h, l); its result is only specified when 2^(h-l) fits the type
		var got *big.Int
		if p, v := kit.Try(func() { got = f(signal.BitDepth(c.H), signal.BitDepth(c.L)) }); p {
			res.Failf("Scale[%s](%d,%d) panicked: %v", c.T, c.H, c.L, v)
			return
		}
		if want.Cmp(new(big.Int).SetUint64(hi)) <= 0 { // "whenever that fits the integer type"
			if got.Cmp(want) != 0 {
				res.Failf("Scale[%s](%d,%d) = %s, want 2^%d = %s", c.T, c.H, c.L, got, c.H-c.L, want)
				return
			}
			res.Class("scale")
		}
	}
	if c.B != 8 {
		res.Class("depthOtherThan8")
	}
	return
}

func FP(c *Case) uint64 {
	h := kit.NewHasher()
	h.Ints([]int{c.B, c.H, c.L, len(c.Vs), len(c.Us)})
	h.Str(c.T)
	for _, v := range c.Vs {
		h.U64(uint64(v))
	}
	for _, u := range c.Us {
		h.U64(u)
	}
	return h.Sum()
}

// BoundaryInts: all int64 within +-3 of 0, +-2^k, 2^k-1 and the type bounds.
func BoundaryInts() (vs []int64, us []uint64) {
	sset, uset := map[int64]bool{}, map[uint64]bool{}
	for off := int64(-3); off <= 3; off++ {
		sset[off] = true
		sset[int64(-1<<63)+3+off] = true
		sset[int64(1<<63-1)-3+off] = true
		uset[uint64(3+off)] = true
		uset[^uint64(0)-uint64(3+off)] = true
		for k := 0; k < 64; k++ {
			if k < 63 {
				sset[int64(1)<<k+off] = true
				sset[-(int64(1)<<k)+off] = true
			}
			uset[uint64(1)<<k+uint64(off)] = true
		}
	}
	for v := range sset {
		vs = append(vs, v)
	}
	for u := range uset {
		us = append(us, u)
	}
	sort.Slice(vs, func(i, j int) bool { return vs[i] < vs[j] })
	sort.Slice(us, func(i, j int) bool { return us[i] < us[j] })
	return
}

func Gen(t *rapid.T) *Case {
	c := &Case{B: rapid.IntRange(1, 64).Draw(t, "b")}
	n := rapid.IntRange(0, 12).Draw(t, "n")
	for i := 0; i < n; i++ {
		switch rapid.IntRange(0, 2).Draw(t, "sel") {
		case 0: // around the depth's own bounds
			k := c.B - 1 - rapid.IntRange(0, 1).Draw(t, "k")
			if k < 0 {
				k = 0
			}
			off := int64(rapid.IntRange(-3, 3).Draw(t, "off"))
			v := int64(uint64(1)<<uint(k)) + off
			if rapid.Bool().Draw(t, "neg") {
				v = -int64(uint64(1)<<uint(k)) + off
			}
			c.Vs = append(c.Vs, v)
			c.Us = append(c.Us, uint64(1)<<uint(c.B%64)+uint64(off))
		default:
			c.Vs = append(c.Vs, rapid.Int64().Draw(t, "v"))
			c.Us = append(c.Us, rapid.Uint64().Draw(t, "u"))
		}
	}
	if rapid.Bool().Draw(t, "withScale") {
		c.T = rapid.SampledFrom(IntTypes).Draw(t, "t")
		c.L = rapid.IntRange(1, 64).Draw(t, "l")
		c.H = rapid.IntRange(c.L, 64).Draw(t, "h")
	}
	return c
}

var Oracle = kit.Oracle[Case]{Property: Property, Gen: Gen, Check: Check, FP: FP}

var _ = fmt.Sprint
