package c16

import (
	"testing"

	"verif/harness/kit"
)

func TestRegress(t *testing.T) { Oracle.Regress(t) }
func TestRapid(t *testing.T)   { Oracle.Rapid(t) }
func TestReplay(t *testing.T)  { Oracle.Replay(t) }
func FuzzC16(f *testing.F)     { Oracle.Fuzz(f) }

// TestSweep: all 64 depths x the boundary value set; Scale over all h >= l x 11 types.
func TestSweep(t *testing.T) {
	env := kit.GetEnv(Property)
	rec := kit.NewRecorder(env, "sweep")
	defer func() { rec.Flush(!t.Failed()) }()
	vs, us := BoundaryInts()
	for b := 1; b <= 64; b++ {
		Oracle.One(t, env, rec, "sweep", &Case{B: b, Vs: vs, Us: us})
		// individually too, so that the evidence counts (depth, value) points
		for i := 0; i < len(vs); i += 7 {
			Oracle.One(t, env, rec, "sweep", &Case{B: b, Vs: vs[i : i+1], Us: us[i%len(us) : i%len(us)+1]})
		}
	}
	for _, tn := range IntTypes {
		for l := 1; l <= 64; l++ {
			for h := l; h <= 64; h++ {
				Oracle.One(t, env, rec, "sweep", &Case{B: h, T: tn, H: h, L: l})
			}
		}
	}
	rec.Note("boundary_values_per_depth", len(vs)+len(us))
	rec.Exhaustive("all 64 depths x all int64/uint64 within +-3 of 0, +-2^k and the type bounds; Scale over all pairs h>=l in 1..64 x 11 integer types", true)
}
