package c16

import (
	"sync"
	"sync/atomic"
	"testing"

	"verif/harness/kit"
)

func TestRegress(t *testing.T) { Oracle.Regress(t) }
func TestRapid(t *testing.T)   { Oracle.Rapid(t) }
func TestReplay(t *testing.T)  { Oracle.Replay(t) }
func FuzzC16(f *testing.F)     { Oracle.Fuzz(f) }

// TestFreshChild is the re-executed half of the fresh-process mode (kit/fresh.go).
func TestFreshChild(t *testing.T) {
	if !Oracle.FreshChild(t) {
		t.Skip("not a fresh-process child")
	}
}

// TestFresh: every one of the six groups of calls as the FIRST library call of a
// process (the others following in rotating orders), at depths around the word
// boundaries.
func TestFresh(t *testing.T) {
	env := kit.GetEnv(Property)
	rec := kit.NewRecorder(env, "fresh")
	defer func() { rec.Flush(!t.Failed()) }()
	vs, us := BoundaryInts()
	for i, b := range []int{1, 2, 8, 31, 32, 33, 63, 64} {
		for first := 0; first < 6; first++ {
			// permutation index whose first element is `first`, the rest varying with the depth
			order := first + 6*((i*17+first*5)%120)
			Oracle.One(t, env, rec, "fresh", &Case{B: b, Vs: vs, Us: us, T: IntTypes[(i+first)%len(IntTypes)], H: b, L: 1 + (first % b), Order: order, Fresh: true})
		}
	}
}

// TestSweep: all 64 depths x the boundary value set; Scale over all h >= l x 11 types.
func TestSweep(t *testing.T) {
	env := kit.GetEnv(Property)
	rec := kit.NewRecorder(env, "sweep")
	defer func() { rec.Flush(!t.Failed()) }()
	vs, us := BoundaryInts()
	for b := 1; b <= 64; b++ {
		Oracle.One(t, env, rec, "sweep", &Case{B: b, Vs: vs, Us: us})
		// individually too, so that the evidence counts (depth, value) points
		for i := 0; i < len(vs); i += 7 {
			Oracle.One(t, env, rec, "sweep", &Case{B: b, Vs: vs[i : i+1], Us: us[i%len(us) : i%len(us)+1]})
		}
	}
	for _, tn := range IntTypes {
		for l := 1; l <= 64; l++ {
			for h := l; h <= 64; h++ {
				Oracle.One(t, env, rec, "sweep", &Case{B: h, T: tn, H: h, L: l})
			}
		}
	}
	// the same queries with the element types interleaved in rotating orders per depth pair
	// (the scale of one type must not depend on which type asked before)
	for l := 1; l <= 64; l++ {
		for h := l; h <= 64; h++ {
			for k := range IntTypes {
				tn := IntTypes[(k*7+h+3*l)%len(IntTypes)]
				Oracle.One(t, env, rec, "sweep", &Case{B: h, T: tn, H: h, L: l})
			}
			for k := len(IntTypes) - 1; k >= 0; k-- {
				Oracle.One(t, env, rec, "sweep", &Case{B: h, T: IntTypes[k], H: h, L: l})
			}
		}
	}
	rec.Note("boundary_values_per_depth", len(vs)+len(us))
	rec.Exhaustive("all 64 depths x all int64/uint64 within +-3 of 0, +-2^k and the type bounds; Scale over all pairs h>=l in 1..64 x 11 integer types", true)
}

// TestConcurrent evaluates the same oracle from many goroutines at once, each
// working at a different depth: the functions are pure, so the results must not
// depend on what other goroutines compute at the same time.
func TestConcurrent(t *testing.T) {
	env := kit.GetEnv(Property)
	rec := kit.NewRecorder(env, "sweep-concurrent")
	defer func() { rec.Flush(!t.Failed()) }()
	vs, us := BoundaryInts()
	rounds := env.Pick(800, 8000)
	var failed atomic.Pointer[Case]
	var failMsg atomic.Pointer[string]
	var evals atomic.Int64
	var wg sync.WaitGroup
	start := make(chan struct{})
	for g := 0; g < 16; g++ {
		wg.Add(1)
		go func(g int) {
			defer wg.Done()
			<-start
			for r := 0; r < rounds && failed.Load() == nil; r++ {
				b := 1 + (g*4+r*7)%64
				i := (g*131 + r*17) % (len(vs) - 40)
				c := &Case{B: b, Vs: vs[i : i+40], Us: us[i%(len(us)-40) : i%(len(us)-40)+40], T: IntTypes[(g+r)%len(IntTypes)], L: 1 + (r % b), H: b}
				res := Oracle.Safe(c)
				evals.Add(1)
				if res.Fail != "" {
					failed.CompareAndSwap(nil, c)
					m := res.Fail + " (while 15 other goroutines evaluate other depths concurrently)"
					failMsg.CompareAndSwap(nil, &m)
					return
				}
			}
		}(g)
	}
	close(start)
	wg.Wait()
	rec.Bulk("concurrentDepths", evals.Load(), evals.Load())
	if c := failed.Load(); c != nil {
		kit.Fail(t, env, "sweep-concurrent", c, *failMsg.Load())
	}
	rec.Sample(map[string]any{"goroutines": 16, "rounds_each": rounds, "what": "40 boundary values clipped at a depth that differs per goroutine and round, plus a Scale query"})
}
