// Package c07 decides property C07: requantisation is accurate to one step and
// lossless when widening.
package c07

import (
	"fmt"

	"pgregory.net/rapid"
	"verif/harness/convtab"
	"verif/harness/kit"
	"verif/harness/numkit"
)

const Property = "C07"

type Case struct {
	S    string  `json:"s"`
	D    string  `json:"d"`
	Amps []int64 `json:"amps"`
	Pad  int     `json:"pad,omitempty"` // the amplitudes are repeated cyclically up to this buffer length
	Fix  int     `json:"fix,omitempty"` // source construction order, see convtab.Entry.NewBlockFix
	Ch   int     `json:"ch,omitempty"`  // channel count of the buffers (0 = 1): the values are interleaved over several channels
}

var Pairs = convtab.Select("SignedAsSigned", "SignedAsUnsigned", "UnsignedAsSigned", "UnsignedAsUnsigned")

// Backs lists the conversions from e's destination type back to every element
// type with the source's format (same signedness and depth).
func Backs(e *convtab.Entry) []*convtab.Entry {
	var out []*convtab.Entry
	for _, ti := range kit.Builtins {
		if ti.Kind == e.S.Kind && ti.Bits == e.S.Bits {
			if b := convtab.Lookup(e.D.Name, ti.Name); b != nil { // a few named destinations have no way back in the table
				out = append(out, b)
			}
		}
	}
	return out
}

// Runner evaluates blocks of amplitudes for one pair; it owns its buffers.
type Runner struct {
	E     *convtab.Entry
	blk   convtab.BlockFn
	backs []*convtab.Entry
	bblk  []convtab.BlockFn
	out   []int64
	rt    []int64
}

func NewRunner(e *convtab.Entry) *Runner { return NewRunnerFix(e, 0, 1) }

func NewRunnerFix(e *convtab.Entry, fix, ch int) *Runner {
	r := &Runner{E: e, blk: e.NewBlockShape(fix, ch)}
	if e.D.Bits > e.S.Bits {
		r.backs = Backs(e)
		for _, b := range r.backs {
			r.bblk = append(r.bblk, b.NewBlockShape(fix, ch))
		}
	}
	return r
}

// Run returns "" or the description of the first violation among in.
func (r *Runner) Run(in []int64) string {
	e := r.E
	if cap(r.out) < len(in) {
		r.out, r.rt = make([]int64, len(in)), make([]int64, len(in))
	}
	out, rt := r.out[:len(in)], r.rt[:len(in)]
	r.blk(in, nil, out, nil)
	ds, dd := e.S.Bits, e.D.Bits
	switch {
	case ds > dd:
		k := ds - dd
		for i, a := range in {
			if f, c := numkit.FloorShift(a, k), numkit.CeilShift(a, k); out[i] != f && out[i] != c {
				return fmt.Sprintf("%s: amplitude %d narrowed by %d bits gives %d, want %d or %d (amplitude/2^%d = %g)", e, a, k, out[i], f, c, k, float64(a)/float64(uint64(1)<<uint(k)))
			}
		}
	case ds == dd:
		for i, a := range in {
			if out[i] != a {
				return fmt.Sprintf("%s: equal depth, amplitude %d became %d", e, a, out[i])
			}
		}
	default:
		for bi, b := range r.backs {
			r.bblk[bi](out, nil, rt, nil)
			for i, a := range in {
				if rt[i] != a {
					return fmt.Sprintf("%s then %s: amplitude %d widened to %d came back as %d", e, b, a, out[i], rt[i])
				}
			}
		}
	}
	return ""
}

func Check(c *Case) (res kit.Result) {
	e := convtab.Lookup(c.S, c.D)
	if e == nil || e.S.Kind == kit.Float || e.D.Kind == kit.Float || len(c.Amps) == 0 || len(c.Amps) > 1<<20 {
		return
	}
	lo, hi := numkit.Lo(e.S.Bits), numkit.Hi(e.S.Bits)
	for _, a := range c.Amps {
		if a < lo || a > hi {
			return
		}
	}
	var msg string
	if c.Pad < 0 || c.Pad > 1<<20 || c.Fix < 0 || c.Fix > convtab.MaxFix || c.Ch < 0 || c.Ch > 64 {
		return
	}
	if c.Pad > len(c.Amps) {
		res.Class("paddedToLongBuffer")
	}
	if p, v := kit.Try(func() { msg = NewRunnerFix(e, c.Fix, c.Ch).Run(kit.PadInts(c.Amps, c.Pad)) }); p {
		res.Failf("%s panicked: %v", e, v)
		return
	}
	if msg != "" {
		res.Failf("%s", msg)
		return
	}
	switch {
	case e.S.Bits > e.D.Bits:
		res.Class("narrowing")
	case e.S.Bits == e.D.Bits:
		res.Class("equalDepth")
	default:
		res.Class("widenAndBack")
	}
	if e.S.Kind != e.D.Kind {
		res.Class("signednessDiffers")
	}
	return
}

func FP(c *Case) uint64 {
	h := kit.NewHasher()
	h.Str(c.S)
	h.Str(c.D)
	h.Int(len(c.Amps))
	h.Int(c.Pad)
	h.Int(c.Fix)
	h.Int(c.Ch)
	for _, a := range c.Amps {
		h.U64(uint64(a))
	}
	return h.Sum()
}

var BAmps = map[int][]int64{8: kit.BoundaryAmps(8), 16: kit.BoundaryAmps(16), 32: kit.BoundaryAmps(32), 64: kit.BoundaryAmps(64)}

func Gen(t *rapid.T) *Case {
	e := Pairs[rapid.IntRange(0, len(Pairs)-1).Draw(t, "pair")]
	if e.S.Bits < 32 && rapid.IntRange(0, 3).Draw(t, "preferWide") != 0 {
		e = Pairs[rapid.IntRange(0, len(Pairs)-1).Draw(t, "pair2")]
	}
	c := &Case{S: e.S.Name, D: e.D.Name}
	c.Pad = kit.GenPad(t)
	c.Fix = rapid.IntRange(0, convtab.MaxFix).Draw(t, "fix")
	c.Ch = kit.GenNumCh(t, c.Pad)
	n := rapid.IntRange(1, 24).Draw(t, "n")
	for i := 0; i < n; i++ {
		c.Amps = append(c.Amps, kit.GenAmp(t, e.S.Bits, BAmps[e.S.Bits]))
	}
	return c
}

var Oracle = kit.Oracle[Case]{Property: Property, Gen: Gen, Check: Check, FP: FP}
