// Package c20 decides property C20: empty and zero-channel buffers are inert.
package c20

import (
	"fmt"

	"pgregory.net/rapid"
	"pipelined.dev/signal"
	"verif/harness/convtab"
	"verif/harness/kit"
)

const Property = "C20"

// Case: one exported entry point exercised on a degenerate buffer allocated
// with Allocator{C,L,K}, at least one of which is 0.
//
//	sizes | appendSample | appendEmpty | slice00 | channel0 | pool : buffer of type T
//	write | read | writeStriped | readStriped : buffer of type T, slices of type U and length N
//	conv : conversion T->U (Role src: degenerate source; dst: degenerate destination; both), partner with N frames
//	channelLength : ChannelLength(N, 0)
type Case struct {
	Entry string `json:"entry"`
	T     string `json:"t,omitempty"`
	U     string `json:"u,omitempty"`
	C     int    `json:"c"`
	L     int    `json:"l"`
	K     int    `json:"k"`
	N     int    `json:"n,omitempty"`
	Role  string `json:"role,omitempty"`
	C2    int    `json:"c2,omitempty"` // appendEmpty/conv both: second degenerate shape (L2=0)
	K2    int    `json:"k2,omitempty"`
}

func (c *Case) kind() string {
	switch {
	case c.C == 0 && c.L == 0 && c.K == 0:
		return "zeroValue"
	case c.C == 0:
		return "zeroChannels"
	case c.K == 0:
		return "zeroCapacity"
	case c.L == 0:
		return "zeroLength"
	}
	return ""
}

// inert: zero channels or zero capacity (the first sentence of the property).
func (c *Case) inert() bool { return c.C == 0 || c.K == 0 }

var rwTable = map[string]func(*Case) kit.Result{}

func reg[S, B signal.SignalTypes](s, b string) { rwTable[s+"/"+b] = rw[S, B] }

func regRow[S signal.SignalTypes](s string) {
	reg[S, int](s, "int")
	reg[S, int8](s, "int8")
	reg[S, int16](s, "int16")
	reg[S, int32](s, "int32")
	reg[S, int64](s, "int64")
	reg[S, uint](s, "uint")
	reg[S, uint8](s, "uint8")
	reg[S, uint16](s, "uint16")
	reg[S, uint32](s, "uint32")
	reg[S, uint64](s, "uint64")
	reg[S, uintptr](s, "uintptr")
	reg[S, float32](s, "float32")
	reg[S, float64](s, "float64")
}

func init() {
	regRow[int]("int")
	regRow[int8]("int8")
	regRow[int16]("int16")
	regRow[int32]("int32")
	regRow[int64]("int64")
	regRow[uint]("uint")
	regRow[uint8]("uint8")
	regRow[uint16]("uint16")
	regRow[uint32]("uint32")
	regRow[uint64]("uint64")
	regRow[uintptr]("uintptr")
	regRow[float32]("float32")
	regRow[float64]("float64")
	// a named type against its underlying type, in both roles, and against itself
	reg[kit.NInt16, int16]("NInt16", "int16")
	reg[int16, kit.NInt16]("int16", "NInt16")
	reg[kit.NInt16, kit.NInt16]("NInt16", "NInt16")
	reg[kit.NUint8, uint8]("NUint8", "uint8")
	reg[uint8, kit.NUint8]("uint8", "NUint8")
	reg[kit.NFloat32, float32]("NFloat32", "float32")
	reg[float32, kit.NFloat32]("float32", "NFloat32")
	reg[kit.NFloat32, kit.NFloat32]("NFloat32", "NFloat32")
	reg[kit.NUint8, kit.NFloat32]("NUint8", "NFloat32")
}

var names = append(kit.BuiltinNames(), kit.SomeNamed...)

func isName(n string) bool {
	for _, x := range names {
		if x == n {
			return true
		}
	}
	return false
}

func (c *Case) alloc() signal.Allocator {
	return signal.Allocator{Channels: c.C, Length: c.L, Capacity: c.K}
}

// degenerate allocates the buffer and, for zero-length buffers with capacity,
// fills the capacity region with sentinels through an alias.
func degenerate(name string, al signal.Allocator) (b, alias kit.AnyBuf, model []kit.Val) {
	b = kit.AllocAny(name, al)
	if al.Channels > 0 && al.Capacity > 0 {
		alias = b.Slice(0, al.Capacity)
		for i := 0; i < alias.Len(); i++ {
			alias.Set(i, kit.IV(kit.Sentinel(i)))
		}
		model = alias.Snap()
	}
	return
}

func wantSizes(c *Case) kit.Hdr {
	h := kit.Hdr{Channels: c.C, BitDepth: -1}
	if !c.inert() {
		h.Cap, h.Capacity = c.C*c.K, c.K
	}
	return h
}

func sizesOK(res *kit.Result, what string, c *Case, b kit.AnyBuf, bits int) bool {
	w := wantSizes(c)
	w.BitDepth = bits
	if h := b.Hdr(); h != w {
		res.Failf("%s: Alloc(%+v) reports %+v, want %+v", what, c.alloc(), h, w)
		return false
	}
	return true
}

func Check(c *Case) (res kit.Result) {
	if c.C < 0 || c.C > 1<<17 || c.L < 0 || c.K < 0 || c.K > 64 || c.N < 0 || c.N > 64 || c.kind() == "" {
		return
	}
	if c.C > 8 && (c.K > 2 || c.N > 2 || c.K2 > 2) { // wide degenerate buffers: bounded storage
		return
	}
	if c.C > 0 && c.L > c.K {
		return
	}
	// zero channels with Length > Capacity is admitted: the total length and capacity are both 0
	if c.Entry == "channelLength" {
		var got int
		if p, v := kit.Try(func() { got = signal.ChannelLength(c.N, 0) }); p {
			res.Failf("ChannelLength(%d, 0) panicked: %v", c.N, v)
			return
		}
		if got < 0 || got > c.N {
			res.Failf("ChannelLength(%d, 0) = %d, a meaningless count (want a value in [0,%d])", c.N, got, c.N)
			return
		}
		res.Class("channelLength")
		return
	}
	if !isName(c.T) {
		return
	}
	bits := kit.Info(c.T).Bits
	skipped := false
	defer func() {
		if res.Fail == "" && !skipped {
			res.Class(c.Entry + ":" + c.kind())
			if c.C >= 255 {
				res.Class("hundredsOrThousandsOfChannels")
			}
		}
	}()
	switch c.Entry {
	case "sizes":
		var b kit.AnyBuf
		if p, v := kit.Try(func() { b = kit.AllocAny(c.T, c.alloc()) }); p {
			res.Failf("Alloc(%+v) panicked: %v", c.alloc(), v)
			return
		}
		var h kit.Hdr
		if p, v := kit.Try(func() { h = b.Hdr() }); p {
			res.Failf("size methods of Alloc(%+v) panicked: %v", c.alloc(), v)
			return
		}
		_ = h
		sizesOK(&res, "sizes", c, b, bits)
	case "appendSample":
		if !c.inert() {
			skipped = true
			return kit.Result{}
		}
		b := kit.AllocAny(c.T, c.alloc())
		for i := 0; i < c.N+1; i++ {
			if p, v := kit.Try(func() { b.AppendSample(kit.IV(7)) }); p {
				res.Failf("AppendSample on Alloc(%+v) panicked: %v", c.alloc(), v)
				return
			}
			if !sizesOK(&res, fmt.Sprintf("after AppendSample #%d", i+1), c, b, bits) {
				return
			}
		}
	case "appendEmpty":
		if !c.inert() {
			skipped = true
			return kit.Result{}
		}
		b := kit.AllocAny(c.T, c.alloc())
		// an empty source with the same channel count
		src := kit.AllocAny(c.T, signal.Allocator{Channels: c.C, Length: 0, Capacity: c.K2})
		sh := src.Hdr()
		if p, v := kit.Try(func() { b.Append(src) }); p {
			res.Failf("Append(empty buffer) on Alloc(%+v) panicked: %v", c.alloc(), v)
			return
		}
		if !sizesOK(&res, "after Append(empty)", c, b, bits) {
			return
		}
		if src.Hdr() != sh {
			res.Failf("Append(empty) changed the source header to %+v", src.Hdr())
			return
		}
		if c.N > 0 { // also appending itself
			if p, v := kit.Try(func() { b.Append(b) }); p {
				res.Failf("Append(self) on empty Alloc(%+v) panicked: %v", c.alloc(), v)
				return
			}
			sizesOK(&res, "after Append(self)", c, b, bits)
		}
	case "slice00":
		b := kit.AllocAny(c.T, c.alloc())
		var s kit.AnyBuf
		if p, v := kit.Try(func() { s = b.Slice(0, 0) }); p {
			res.Failf("Slice(0,0) on Alloc(%+v) panicked: %v", c.alloc(), v)
			return
		}
		if h := s.Hdr(); h.Len != 0 || h.Length != 0 || h.Channels != c.C || h.Cap != wantSizes(c).Cap {
			res.Failf("Slice(0,0) on Alloc(%+v) reports %+v", c.alloc(), h)
			return
		}
		if !sizesOK(&res, "after Slice(0,0)", c, b, bits) {
			return
		}
		if c.C > 0 && c.K == 0 {
			// the window and the buffer are two buffers: growing one of them by an Append (the only
			// way a zero-capacity buffer gets content) must leave the other one inert
			grow, other, what := s, b, "the buffer after its Slice(0,0) window grew by an Append"
			if c.N%2 == 1 {
				grow, other, what = b, s, "the Slice(0,0) window after its buffer grew by an Append"
			}
			src := kit.AnyRoot(c.T, c.C, 1+c.N%3)
			if p, v := kit.Try(func() { grow.Append(src) }); p {
				res.Failf("Append onto an empty zero-capacity buffer of Alloc(%+v) panicked: %v", c.alloc(), v)
				return
			}
			if h := other.Hdr(); h.Len != 0 || h.Cap != 0 || h.Length != 0 || h.Capacity != 0 || h.Channels != c.C {
				res.Failf("%s reports %+v, want an empty zero-capacity buffer of %d channels", what, h, c.C)
				return
			}
			other.AppendSample(kit.IV(4))
			if out, n := other.ReadVals(2); n != 0 || out[0].String() != "0" || other.Len() != 0 {
				res.Failf("%s: AppendSample/Read are no longer without effect (Read returned %d, Len %d)", what, n, other.Len())
				return
			}
			res.Class("windowAndBufferGrowIndependently")
		}
	case "channel0":
		b := kit.AllocAny(c.T, c.alloc())
		var ln, cp, ch int
		if p, v := kit.Try(func() {
			view := b.Channel(0)
			ln, cp, ch = view.Length(), view.Capacity(), view.Channels()
		}); p {
			res.Failf("Channel(0) size methods on Alloc(%+v) panicked: %v", c.alloc(), v)
			return
		}
		w := wantSizes(c)
		if ln != 0 || cp != w.Capacity || ch != 1 {
			res.Failf("Channel(0) of Alloc(%+v): length %d capacity %d channels %d, want 0, %d, 1", c.alloc(), ln, cp, ch, w.Capacity)
		}
	case "pool":
		var pool kit.AnyPool
		if p, v := kit.Try(func() { pool = kit.NewAnyPool(c.T, c.alloc()) }); p {
			res.Failf("PoolAlloc(%+v) panicked: %v", c.alloc(), v)
			return
		}
		for i := 0; i < 3; i++ {
			var b kit.AnyBuf
			if p, v := kit.Try(func() { b = pool.Get() }); p {
				res.Failf("Get from PoolAlloc(%+v) panicked: %v", c.alloc(), v)
				return
			}
			if !sizesOK(&res, fmt.Sprintf("pooled buffer #%d", i), c, b, bits) {
				return
			}
			if c.inert() {
				b.AppendSample(kit.IV(3))
				if !sizesOK(&res, "pooled buffer after AppendSample", c, b, bits) {
					return
				}
			} else {
				// a zero-length buffer with capacity is used before it goes back: the next one
				// obtained must be a zero-length buffer again in every respect
				for k := 0; k < c.N; k++ {
					b.AppendSample(kit.IV(int64(1 + k%9)))
				}
				if c.N > 0 {
					res.Class("pooledZeroLengthBufferUsedBeforePut")
				}
			}
			if p, v := kit.Try(func() { pool.Put(b) }); p {
				res.Failf("Put of a buffer obtained from PoolAlloc(%+v) panicked: %v", c.alloc(), v)
				return
			}
		}
		// several buffers outstanding at the same time, all put back afterwards
		var held []kit.AnyBuf
		for i := 0; i < 2+c.N%3; i++ {
			held = append(held, pool.Get())
		}
		for i, b := range held {
			if !sizesOK(&res, fmt.Sprintf("buffer #%d of %d outstanding ones", i, len(held)), c, b, bits) {
				return
			}
		}
		for i, b := range held {
			if p, v := kit.Try(func() { pool.Put(b) }); p {
				res.Failf("Put of buffer #%d of %d outstanding ones obtained from PoolAlloc(%+v) panicked: %v", i, len(held), c.alloc(), v)
				return
			}
		}
		res.Class("severalOutstandingPooledBuffers")
		if c.C*c.K == 0 {
			// a pool whose buffers have no storage takes any buffer without storage (its guard compares
			// total capacities, 0 == 0): offering one allocated elsewhere, with another channel count,
			// is one more call on an inert buffer and must not panic
			for _, ch := range []int{0, 1, 2, 3} {
				other := kit.AllocAny(c.T, signal.Allocator{Channels: ch, Length: 0, Capacity: 0})
				if p, v := kit.Try(func() { pool.Put(other) }); p {
					res.Failf("Put of an empty zero-capacity buffer with %d channels into PoolAlloc(%+v) (total capacity 0) panicked: %v", ch, c.alloc(), v)
					return
				}
			}
			res.Class("foreignEmptyBufferOfferedToAnEmptyPool")
		}
	case "poolAfterGrowth":
		// A buffer obtained from a zero-capacity pool may legitimately be grown by
		// appending a non-empty buffer to it (it then leaves the pool's capacity
		// class and is dropped). Buffers obtained afterwards must still be inert.
		if !c.inert() || c.C == 0 {
			skipped = true
			return kit.Result{}
		}
		pool := kit.NewAnyPool(c.T, c.alloc())
		g := pool.Get()
		if !sizesOK(&res, "pooled buffer", c, g, bits) {
			return
		}
		src := kit.AnyRoot(c.T, c.C, 1+c.N%4)
		if p, v := kit.Try(func() { g.Append(src) }); p {
			res.Failf("Append of %d frames to a buffer from PoolAlloc(%+v) panicked: %v", 1+c.N%4, c.alloc(), v)
			return
		}
		for i := 0; i < 3; i++ {
			b := pool.Get()
			if !sizesOK(&res, fmt.Sprintf("buffer #%d obtained after another buffer of the pool was grown", i), c, b, bits) {
				return
			}
			b.AppendSample(kit.IV(5))
			if !sizesOK(&res, "that buffer after AppendSample", c, b, bits) {
				return
			}
			if out, n := b.ReadVals(3); n != 0 || out[0].String() != "0" {
				res.Failf("Read on a buffer from PoolAlloc(%+v) after another one was grown returned %d", c.alloc(), n)
				return
			}
			if c.K2 > 0 {
				pool.Put(b)
			}
		}
	case "write", "read", "writeStriped", "readStriped":
		f, ok := rwTable[c.U+"/"+c.T]
		if !ok {
			skipped = true
			return kit.Result{}
		}
		r := f(c)
		if r.Fail != "" {
			return r
		}
	case "conv":
		return conv(c)
	default:
		skipped = true
		return kit.Result{}
	}
	return
}

// rw: S = slice type (c.U), B = buffer type (c.T).
func rw[S, B signal.SignalTypes](c *Case) (res kit.Result) {
	al := c.alloc()
	b := signal.Alloc[B](al)
	var alias *signal.Buffer[B]
	var model []B
	if al.Channels > 0 && al.Capacity > 0 {
		alias = b.Slice(0, al.Capacity)
		for i := 0; i < alias.Len(); i++ {
			alias.SetSample(i, B(kit.Sentinel(i)))
		}
		model = kit.Snap(alias)
	}
	h := kit.HdrOf(b)
	mk := func(n int) []S {
		s := make([]S, n)
		for i := range s {
			s[i] = S(kit.OutSentinel(i))
		}
		return s
	}
	var ret int
	what := fmt.Sprintf("%s on Alloc[%s](%+v) with %s slices of length %d", c.Entry, c.T, al, c.U, c.N)
	var flat, keep []S
	var st, stKeep [][]S
	switch c.Entry {
	case "write", "read":
		flat = mk(c.N)
		keep = append([]S(nil), flat...)
	default:
		st = make([][]S, al.Channels)
		stKeep = make([][]S, al.Channels)
		for i := range st {
			if i%3 == 2 {
				continue
			}
			st[i] = mk(c.N)
			stKeep[i] = append([]S(nil), st[i]...)
		}
	}
	p, v := kit.Try(func() {
		switch c.Entry {
		case "write":
			ret = signal.Write(flat, b)
		case "read":
			ret = signal.Read(b, flat)
		case "writeStriped":
			ret = signal.WriteStriped(st, b)
		case "readStriped":
			ret = signal.ReadStriped(b, st)
		}
	})
	if p {
		res.Failf("%s panicked: %v", what, v)
		return
	}
	if ret != 0 {
		res.Failf("%s returned %d, want 0", what, ret)
		return
	}
	if d := kit.DiffSlice("caller's slice", flat, keep); d != "" {
		res.Failf("%s: %s", what, d)
		return
	}
	for i := range st {
		if d := kit.DiffSlice(fmt.Sprintf("caller's slice %d", i), st[i], stKeep[i]); d != "" {
			res.Failf("%s: %s", what, d)
			return
		}
	}
	if kit.HdrOf(b) != h {
		res.Failf("%s changed the buffer's shape to %+v (was %+v)", what, kit.HdrOf(b), h)
		return
	}
	if alias != nil {
		if d := kit.DiffSlice("buffer capacity region", kit.Snap(alias), model); d != "" {
			res.Failf("%s: %s", what, d)
			return
		}
	}
	return
}

func conv(c *Case) (res kit.Result) {
	e := convtab.Lookup(c.T, c.U)
	if e == nil {
		return
	}
	al := c.alloc()
	partner := func(name string) (kit.AnyBuf, kit.AnyBuf, []kit.Val) {
		if c.C == 0 {
			// the only same-channel partners of a zero-channel buffer are zero-channel buffers
			b := kit.AllocAny(name, signal.Allocator{Channels: 0, Length: 0, Capacity: c.K2})
			return b, nil, nil
		}
		root := kit.AnyRoot(name, c.C, c.N+1)
		return root.Slice(0, c.N), root, root.Snap()
	}
	var src, dst, proot kit.AnyBuf
	var pmodel, dmodel []kit.Val
	var dalias kit.AnyBuf
	switch c.Role {
	case "src":
		src, _, _ = degenerate(c.T, al)
		dst, proot, pmodel = partner(c.U)
	case "dst":
		src, proot, pmodel = partner(c.T)
		dst, dalias, dmodel = degenerate(c.U, al)
	case "both":
		src, _, _ = degenerate(c.T, al)
		dst, dalias, dmodel = degenerate(c.U, signal.Allocator{Channels: c.C, Length: 0, Capacity: c.K2})
	default:
		return
	}
	sh, dh := src.Hdr(), dst.Hdr()
	var ret int
	what := fmt.Sprintf("%s with degenerate %s Alloc(%+v), partner %d frames", e, c.Role, al, c.N)
	if p, v := kit.Try(func() { ret = e.Convert(src, dst) }); p {
		res.Failf("%s panicked: %v", what, v)
		return
	}
	if ret != 0 {
		res.Failf("%s returned %d, want 0", what, ret)
		return
	}
	if src.Hdr() != sh || dst.Hdr() != dh {
		res.Failf("%s changed a header: src %+v (was %+v) dst %+v (was %+v)", what, src.Hdr(), sh, dst.Hdr(), dh)
		return
	}
	if proot != nil {
		if d := kit.DiffVals("partner storage", proot.Snap(), pmodel); d != "" {
			res.Failf("%s: %s", what, d)
			return
		}
	}
	if dalias != nil {
		if d := kit.DiffVals("degenerate destination's capacity region", dalias.Snap(), dmodel); d != "" {
			res.Failf("%s: %s", what, d)
			return
		}
	}
	res.Class("conv:" + c.Role + ":" + c.kind())
	return
}

func FP(c *Case) uint64 {
	h := kit.NewHasher()
	h.Str(c.Entry)
	h.Str(c.T)
	h.Str(c.U)
	h.Str(c.Role)
	h.Ints([]int{c.C, c.L, c.K, c.N, c.C2, c.K2})
	return h.Sum()
}

// Shapes returns the degenerate allocator shapes up to maxC channels / maxK frames.
func Shapes(maxC, maxK int) [][3]int {
	out := [][3]int{{0, 0, 0}}
	for k := 0; k <= maxK; k++ {
		for l := 0; l <= maxK+1; l++ {
			if k+l > 0 {
				out = append(out, [3]int{0, l, k}) // zero channels (any length/capacity, also length > capacity: the totals are 0)
			}
		}
	}
	for c := 1; c <= maxC; c++ {
		out = append(out, [3]int{c, 0, 0}) // zero capacity
		for k := 1; k <= maxK; k++ {
			out = append(out, [3]int{c, 0, k}) // zero length
		}
	}
	return out
}

var entries = []string{"sizes", "appendSample", "appendEmpty", "slice00", "channel0", "pool", "poolAfterGrowth", "write", "read", "writeStriped", "readStriped", "conv", "channelLength"}

func Gen(t *rapid.T) *Case {
	c := &Case{Entry: rapid.SampledFrom(entries).Draw(t, "entry")}
	switch rapid.IntRange(0, 3).Draw(t, "kind") {
	case 0:
	case 1:
		c.K = rapid.IntRange(0, 40).Draw(t, "k")
		c.L = rapid.IntRange(0, 300).Draw(t, "l")
	case 2:
		c.C = rapid.IntRange(1, 8).Draw(t, "c")
	default:
		c.C = rapid.IntRange(1, 8).Draw(t, "c")
		c.K = rapid.IntRange(1, 40).Draw(t, "k")
	}
	c.N = rapid.IntRange(0, 40).Draw(t, "n")
	c.K2 = rapid.IntRange(0, 5).Draw(t, "k2")
	if c.C > 0 && kit.Chance(t, "wide", 1, 25) {
		// a degenerate buffer may have any number of channels: around the ranges of 8- and 16-bit counters
		c.C = rapid.SampledFrom(WideChannels).Draw(t, "cWide")
		c.K, c.N, c.K2 = kit.Min(c.K, 2), c.N%3, c.K2%3
		if c.K > 0 {
			c.L = 0
		}
	}
	c.T = rapid.SampledFrom(names).Draw(t, "t")
	switch c.Entry {
	case "write", "read", "writeStriped", "readStriped":
		c.U = rapid.SampledFrom(names).Draw(t, "u")
	case "conv":
		e := convtab.Entries[rapid.IntRange(0, len(convtab.Entries)-1).Draw(t, "inst")]
		c.T, c.U = e.S.Name, e.D.Name
		c.Role = rapid.SampledFrom([]string{"src", "dst", "both"}).Draw(t, "role")
	}
	return c
}

// WideChannels: channel counts around 2^8, 2^16 and 2^17.
var WideChannels = []int{255, 256, 257, 65535, 65536, 65537, 65538, 1 << 17}

var Oracle = kit.Oracle[Case]{Property: Property, Gen: Gen, Check: Check, FP: FP}
