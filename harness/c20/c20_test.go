package c20

import (
	"testing"

	"verif/harness/convtab"
	"verif/harness/kit"
)

func TestRegress(t *testing.T) { Oracle.Regress(t) }
func TestRapid(t *testing.T)   { Oracle.Rapid(t) }
func TestReplay(t *testing.T)  { Oracle.Replay(t) }
func FuzzC20(f *testing.F)     { Oracle.Fuzz(f) }

// TestSweep: every entry point x every degenerate shape on a small grid x types.
func TestSweep(t *testing.T) {
	env := kit.GetEnv(Property)
	rec := kit.NewRecorder(env, "sweep")
	defer func() { rec.Flush(!t.Failed()) }()
	shapes := Shapes(env.Pick(3, 4), env.Pick(2, 3))
	for n := 0; n <= 5; n++ {
		Oracle.One(t, env, rec, "sweep", &Case{Entry: "channelLength", N: n})
	}
	for _, sh := range shapes {
		for _, tn := range names {
			for _, entry := range []string{"sizes", "slice00", "channel0", "pool", "poolAfterGrowth"} {
				Oracle.One(t, env, rec, "sweep", &Case{Entry: entry, T: tn, C: sh[0], L: sh[1], K: sh[2]})
			}
			for _, n := range []int{0, 1, 4} {
				Oracle.One(t, env, rec, "sweep", &Case{Entry: "appendSample", T: tn, C: sh[0], L: sh[1], K: sh[2], N: n})
				for k2 := 0; k2 <= 2; k2++ {
					Oracle.One(t, env, rec, "sweep", &Case{Entry: "appendEmpty", T: tn, C: sh[0], L: sh[1], K: sh[2], N: n, K2: k2})
				}
			}
			for _, un := range names {
				for _, entry := range []string{"write", "read", "writeStriped", "readStriped"} {
					for _, n := range []int{0, 1, 3} {
						Oracle.One(t, env, rec, "sweep", &Case{Entry: entry, T: tn, U: un, C: sh[0], L: sh[1], K: sh[2], N: n})
					}
				}
			}
		}
		for _, e := range convtab.Entries {
			for _, role := range []string{"src", "dst", "both"} {
				for _, n := range []int{0, 1, 3} {
					for k2 := 0; k2 <= 1; k2++ {
						Oracle.One(t, env, rec, "sweep", &Case{Entry: "conv", T: e.S.Name, U: e.D.Name, C: sh[0], L: sh[1], K: sh[2], N: n, Role: role, K2: k2})
					}
				}
			}
		}
	}
	// wide degenerate buffers: hundreds and tens of thousands of channels, no capacity or no length
	for i, C := range WideChannels {
		for _, sh := range [][2]int{{0, 0}, {0, 1}, {1, 0}} { // {L, K}
			tn, un := names[i%len(names)], names[(i*3+sh[0]+sh[1])%len(names)]
			for _, entry := range []string{"sizes", "slice00", "channel0", "pool", "poolAfterGrowth", "appendSample", "appendEmpty"} {
				Oracle.One(t, env, rec, "sweep", &Case{Entry: entry, T: tn, C: C, L: sh[0], K: sh[1], N: 1 + i%2, K2: i % 2})
			}
			for _, entry := range []string{"write", "read", "writeStriped", "readStriped"} {
				Oracle.One(t, env, rec, "sweep", &Case{Entry: entry, T: tn, U: un, C: C, L: sh[0], K: sh[1], N: 2})
			}
			e := convtab.Entries[(i*37+sh[0]*5+sh[1]*11)%len(convtab.Entries)]
			for _, role := range []string{"src", "dst", "both"} {
				Oracle.One(t, env, rec, "sweep", &Case{Entry: "conv", T: e.S.Name, U: e.D.Name, C: C, L: sh[0], K: sh[1], N: 1, Role: role, K2: 1})
			}
		}
	}
	rec.Exhaustive("every exported entry point x every degenerate allocator (zero value; 0 channels with L<=K<=2(3); C<=3(4) with zero capacity; zero length with K<=2(3)) x 13 types (169 pairs for Read/Write/striped, 169 conversions x 3 roles) x slice/partner lengths {0,1,3}", true)
}
