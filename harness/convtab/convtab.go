// Package convtab is the table of all 169 instantiations of the nine
// sample-format conversions over the built-in element types, plus 34 with named
// element types, type-erased so that oracles can be written once.
package convtab

import (
	"golang.org/x/exp/constraints"
	"pipelined.dev/signal"
	"strconv"
	"verif/harness/kit"
)

// BlockFn converts a block of samples through a pair of 1-channel buffers.
// Integer samples travel as amplitudes (code for signed types, code-2^(d-1)
// for unsigned types), floating samples as float64 (exact for float32).
// Exactly one of inI/inF and one of outI/outF is used, by the kinds of S and D.
type BlockFn func(inI []int64, inF []float64, outI []int64, outF []float64)

// Entry is one instantiation.
type Entry struct {
	Fn       string // FloatAsFloat ... UnsignedAsUnsigned
	S, D     kit.TypeInfo
	Convert  func(src, dst kit.AnyBuf) int
	NewBlock func() BlockFn // each returned BlockFn owns its buffers (one per goroutine)
	// NewBlockFix is NewBlock with a fixture construction order for the source:
	// 0: filled and converted through the same header; 1: the converted header is
	// a Slice(0,n) taken before the samples were written through the parent;
	// 2: the samples are written through a Slice(0,n) alias and the never-written
	// parent header is converted.
	NewBlockFix func(fix int) BlockFn
	// NewBlockShape is NewBlockFix with buffers of the given channel count (the n
	// values occupy the first n interleaved positions of ceil(n/channels) frames;
	// the rest of the last frame holds zeros and is ignored).
	NewBlockShape func(fix, channels int) BlockFn
	// Prepared allocates typed buffers (C channels, sFrames / dFrames long, the
	// destination optionally a window with spare capacity) and returns a closure
	// that only performs the conversion - for allocation measurements.
	Prepared func(C, sFrames, dFrames int, window bool) func()
}

func (e *Entry) Key() string    { return e.S.Name + "/" + e.D.Name }
func (e *Entry) String() string { return e.Fn + "[" + e.S.Name + "," + e.D.Name + "]" }

// MaxFix is the largest fixture construction order NewBlockShape knows.
const MaxFix = 11

// Entries lists the 169 built-in instantiations in a fixed order, then the 34 named ones.
var Entries []*Entry
var byKey = map[string]*Entry{}

// Lookup finds the conversion from element type s to d.
func Lookup(s, d string) *Entry { return byKey[s+"/"+d] }

// Select returns the entries of the given functions (all if none given).
func Select(fns ...string) []*Entry {
	var out []*Entry
	for _, e := range Entries {
		if len(fns) == 0 {
			out = append(out, e)
			continue
		}
		for _, f := range fns {
			if e.Fn == f {
				out = append(out, e)
			}
		}
	}
	return out
}

// AmpToCode maps an amplitude to the sample code of an integer format.
func AmpToCode(ti kit.TypeInfo, a int64) kit.Val {
	if ti.Kind == kit.Signed {
		return kit.IV(a)
	}
	return kit.UV(uint64(a) + 1<<(ti.Bits-1))
}

// CodeToAmp is the inverse of AmpToCode.
func CodeToAmp(ti kit.TypeInfo, v kit.Val) int64 {
	if ti.Kind == kit.Signed {
		return v.I
	}
	return int64(v.U - 1<<(ti.Bits-1))
}

func ampToCode[T signal.SignalTypes](signed bool, half uint64, a int64) T {
	if signed {
		return T(a)
	}
	return T(uint64(a) + half)
}

func codeToAmp[T signal.SignalTypes](signed bool, half uint64, x T) int64 {
	if signed {
		return int64(x)
	}
	return int64(uint64(x) - half)
}

// primers: element type name -> func(*signal.Buffer[T]) that makes the buffer the
// whole destination of a conversion (from an all-zero int8 source), so that the
// buffer's header has the history "produced by a conversion".
var primers = map[string]any{}

// sharedDst: destination buffers reused across instantiations (fix 8), by destination type and shape.
var sharedDst = map[string]any{}

func zeroLike[T signal.SignalTypes](b *signal.Buffer[T]) *signal.Buffer[int8] {
	return signal.Alloc[int8](signal.Allocator{Channels: b.Channels(), Length: b.Length(), Capacity: b.Length()})
}

func primeFloat[T constraints.Float](name string) {
	primers[name] = func(b *signal.Buffer[T]) { signal.SignedAsFloat(zeroLike(b), b) }
}

func primeSigned[T constraints.Signed](name string) {
	primers[name] = func(b *signal.Buffer[T]) { signal.SignedAsSigned(zeroLike(b), b) }
}

func primeUnsigned[T constraints.Unsigned](name string) {
	primers[name] = func(b *signal.Buffer[T]) { signal.SignedAsUnsigned(zeroLike(b), b) }
}

func mk[S, D signal.SignalTypes](fn, s, d string, conv func(*signal.Buffer[S], *signal.Buffer[D]) int) {
	e := &Entry{Fn: fn, S: kit.Info(s), D: kit.Info(d)}
	prime, _ := primers[s].(func(*signal.Buffer[S]))
	e.Convert = func(src, dst kit.AnyBuf) int {
		return conv(src.Raw().(*signal.Buffer[S]), dst.Raw().(*signal.Buffer[D]))
	}
	e.Prepared = func(C, sFrames, dFrames int, window bool) func() {
		src := signal.Alloc[S](signal.Allocator{Channels: C, Length: sFrames, Capacity: sFrames})
		dst := signal.Alloc[D](signal.Allocator{Channels: C, Length: dFrames, Capacity: dFrames})
		if window {
			dst = signal.Alloc[D](signal.Allocator{Channels: C, Length: dFrames + 2, Capacity: dFrames + 5}).Slice(1, dFrames+1)
		}
		return func() { conv(src, dst) }
	}
	sk, dk := e.S.Kind, e.D.Kind
	sHalf, dHalf := uint64(1)<<(e.S.Bits-1), uint64(1)<<(e.D.Bits-1)
	e.NewBlock = func() BlockFn { return e.NewBlockFix(0) }
	e.NewBlockFix = func(fix int) BlockFn { return e.NewBlockShape(fix, 1) }
	e.NewBlockShape = func(fix, channels int) BlockFn {
		if channels < 1 {
			channels = 1
		}
		var src, csrc *signal.Buffer[S] // src: written through; csrc: converted
		var dst *signal.Buffer[D]
		var lo *signal.Buffer[D] // fix 10: the window before dst in the same parent
		size := -1
		return func(inI []int64, inF []float64, outI []int64, outF []float64) {
			n := len(inI)
			if sk == kit.Float {
				n = len(inF)
			}
			if n != size || fix != 0 {
				fr := (n + channels - 1) / channels
				a := signal.Allocator{Channels: channels, Length: fr, Capacity: fr}
				if fix == 0 && n%channels != 0 {
					// both buffers end in a partial last frame holding exactly the n values
					a.Length = n / channels
				}
				base := signal.Alloc[S](a)
				dbuf := signal.Alloc[D](a)
				if fix == 6 {
					// the source is two frames longer than the destination (the conversion must stop at
					// the destination's length); the extra frames hold zeros
					la := a
					la.Length, la.Capacity = fr+2, fr+2
					base = signal.Alloc[S](la)
				}
				if fix == 7 {
					// the destination is two frames longer than the source
					la := a
					la.Length, la.Capacity = fr+2, fr+2
					dbuf = signal.Alloc[D](la)
				}
				if fix == 8 {
					// the destination is one buffer object shared by every instantiation with this
					// destination type and shape: it has been the destination of conversions from
					// other source formats before (cases run one after the other, never concurrently)
					key := d + "/" + strconv.Itoa(channels) + "/" + strconv.Itoa(fr)
					if sb, ok := sharedDst[key].(*signal.Buffer[D]); ok {
						dbuf = sb
					} else {
						sharedDst[key] = dbuf
					}
				}
				if fix == 3 {
					// both buffers come out of a pool after a round trip through it
					ps, pd := signal.PoolAlloc[S](a), signal.PoolAlloc[D](a)
					b1, d1 := ps.Get(), pd.Get()
					b1.AppendSample(1)
					ps.Put(b1)
					pd.Put(d1)
					base, dbuf = ps.Get(), pd.Get()
				}
				if fix == 4 {
					// both buffers grew out of an empty window at the end of another buffer
					// (Slice(fr,fr), then an Append that moves them to storage of their own)
					gs, gd := base.Slice(fr, fr), dbuf.Slice(fr, fr)
					gs.Append(base)
					gd.Append(dbuf)
					base, dbuf = gs, gd
				}
				lo = nil
				if fix == 10 {
					// output in pieces: the destination is the second of two adjacent windows of one parent;
					// after the conversion into it the same samples are converted into the first window
					// from a source that goes on (with the samples in reverse order) beyond that
					// window's length - a conversion must stop at the destination's length, whatever
					// capacity lies behind it, so the results read from the second window stay what they were
					la := a
					la.Length, la.Capacity = 2*fr, 2*fr
					base = signal.Alloc[S](la)
					dpar := signal.Alloc[D](la)
					lo, dbuf = dpar.Slice(0, fr), dpar.Slice(fr, 2*fr)
				}
				if fix == 11 {
					// same-type instantiations: source and destination are adjacent windows of one
					// parent (the destination starting where the source ends); other instantiations
					// cannot share storage and run as fix 0 with whole frames
					la := a
					la.Length, la.Capacity = 2*fr, 2*fr
					par := signal.Alloc[S](la)
					if d2, ok := any(par.Slice(fr, 2*fr)).(*signal.Buffer[D]); ok {
						base, dbuf = par.Slice(0, fr), d2
					}
				}
				if fix == 9 && fr >= 1 {
					// the source was converted into a shorter destination (one frame) before: a
					// conversion must leave its source as it was, header included
					conv(base, signal.Alloc[D](signal.Allocator{Channels: channels, Length: 1, Capacity: 1}))
				}
				src, csrc, dst, size = base, base, dbuf, n
				for base.Len() < n && a.Length < fr {
					base.AppendSample(0)
					dst.AppendSample(D(1)) // stale content a skipped conversion would leave behind
				}
				switch fix {
				case 1, 10:
					csrc = base.Slice(0, fr)
				case 2:
					src = base.Slice(0, fr)
				case 5:
					// the source was the whole destination of a conversion before; the converted
					// header is a window cut then, the samples are written through the parent afterwards
					if prime != nil {
						prime(base)
					}
					csrc = base.Slice(0, fr)
				}
			}
			switch sk {
			case kit.Float:
				for i := 0; i < n; i++ {
					src.SetSample(i, S(inF[i]))
				}
			case kit.Signed:
				for i := 0; i < n; i++ {
					src.SetSample(i, ampToCode[S](true, sHalf, inI[i]))
				}
			default:
				for i := 0; i < n; i++ {
					src.SetSample(i, ampToCode[S](false, sHalf, inI[i]))
				}
			}
			conv(csrc, dst)
			if lo != nil {
				off := lo.Len()
				for i := 0; i < n; i++ {
					src.SetSample(off+i, src.Sample(n-1-i))
				}
				conv(src, lo)
			}
			switch dk {
			case kit.Float:
				for i := 0; i < n; i++ {
					outF[i] = float64(dst.Sample(i))
				}
			case kit.Signed:
				for i := 0; i < n; i++ {
					outI[i] = codeToAmp[D](true, dHalf, dst.Sample(i))
				}
			default:
				for i := 0; i < n; i++ {
					outI[i] = codeToAmp[D](false, dHalf, dst.Sample(i))
				}
			}
		}
	}
	Entries = append(Entries, e)
	byKey[e.Key()] = e
}

func floatRow[S constraints.Float](s string) {
	mk[S, float32]("FloatAsFloat", s, "float32", signal.FloatAsFloat[S, float32])
	mk[S, float64]("FloatAsFloat", s, "float64", signal.FloatAsFloat[S, float64])
	mk[S, int]("FloatAsSigned", s, "int", signal.FloatAsSigned[S, int])
	mk[S, int8]("FloatAsSigned", s, "int8", signal.FloatAsSigned[S, int8])
	mk[S, int16]("FloatAsSigned", s, "int16", signal.FloatAsSigned[S, int16])
	mk[S, int32]("FloatAsSigned", s, "int32", signal.FloatAsSigned[S, int32])
	mk[S, int64]("FloatAsSigned", s, "int64", signal.FloatAsSigned[S, int64])
	mk[S, uint]("FloatAsUnsigned", s, "uint", signal.FloatAsUnsigned[S, uint])
	mk[S, uint8]("FloatAsUnsigned", s, "uint8", signal.FloatAsUnsigned[S, uint8])
	mk[S, uint16]("FloatAsUnsigned", s, "uint16", signal.FloatAsUnsigned[S, uint16])
	mk[S, uint32]("FloatAsUnsigned", s, "uint32", signal.FloatAsUnsigned[S, uint32])
	mk[S, uint64]("FloatAsUnsigned", s, "uint64", signal.FloatAsUnsigned[S, uint64])
	mk[S, uintptr]("FloatAsUnsigned", s, "uintptr", signal.FloatAsUnsigned[S, uintptr])
}

func signedRow[S constraints.Signed](s string) {
	mk[S, float32]("SignedAsFloat", s, "float32", signal.SignedAsFloat[S, float32])
	mk[S, float64]("SignedAsFloat", s, "float64", signal.SignedAsFloat[S, float64])
	mk[S, int]("SignedAsSigned", s, "int", signal.SignedAsSigned[S, int])
	mk[S, int8]("SignedAsSigned", s, "int8", signal.SignedAsSigned[S, int8])
	mk[S, int16]("SignedAsSigned", s, "int16", signal.SignedAsSigned[S, int16])
	mk[S, int32]("SignedAsSigned", s, "int32", signal.SignedAsSigned[S, int32])
	mk[S, int64]("SignedAsSigned", s, "int64", signal.SignedAsSigned[S, int64])
	mk[S, uint]("SignedAsUnsigned", s, "uint", signal.SignedAsUnsigned[S, uint])
	mk[S, uint8]("SignedAsUnsigned", s, "uint8", signal.SignedAsUnsigned[S, uint8])
	mk[S, uint16]("SignedAsUnsigned", s, "uint16", signal.SignedAsUnsigned[S, uint16])
	mk[S, uint32]("SignedAsUnsigned", s, "uint32", signal.SignedAsUnsigned[S, uint32])
	mk[S, uint64]("SignedAsUnsigned", s, "uint64", signal.SignedAsUnsigned[S, uint64])
	mk[S, uintptr]("SignedAsUnsigned", s, "uintptr", signal.SignedAsUnsigned[S, uintptr])
}

func unsignedRow[S constraints.Unsigned](s string) {
	mk[S, float32]("UnsignedAsFloat", s, "float32", signal.UnsignedAsFloat[S, float32])
	mk[S, float64]("UnsignedAsFloat", s, "float64", signal.UnsignedAsFloat[S, float64])
	mk[S, int]("UnsignedAsSigned", s, "int", signal.UnsignedAsSigned[S, int])
	mk[S, int8]("UnsignedAsSigned", s, "int8", signal.UnsignedAsSigned[S, int8])
	mk[S, int16]("UnsignedAsSigned", s, "int16", signal.UnsignedAsSigned[S, int16])
	mk[S, int32]("UnsignedAsSigned", s, "int32", signal.UnsignedAsSigned[S, int32])
	mk[S, int64]("UnsignedAsSigned", s, "int64", signal.UnsignedAsSigned[S, int64])
	mk[S, uint]("UnsignedAsUnsigned", s, "uint", signal.UnsignedAsUnsigned[S, uint])
	mk[S, uint8]("UnsignedAsUnsigned", s, "uint8", signal.UnsignedAsUnsigned[S, uint8])
	mk[S, uint16]("UnsignedAsUnsigned", s, "uint16", signal.UnsignedAsUnsigned[S, uint16])
	mk[S, uint32]("UnsignedAsUnsigned", s, "uint32", signal.UnsignedAsUnsigned[S, uint32])
	mk[S, uint64]("UnsignedAsUnsigned", s, "uint64", signal.UnsignedAsUnsigned[S, uint64])
	mk[S, uintptr]("UnsignedAsUnsigned", s, "uintptr", signal.UnsignedAsUnsigned[S, uintptr])
}

func init() {
	primeFloat[float32]("float32")
	primeFloat[float64]("float64")
	primeFloat[kit.NFloat32]("NFloat32")
	primeFloat[kit.NFloat64]("NFloat64")
	primeSigned[int]("int")
	primeSigned[int8]("int8")
	primeSigned[int16]("int16")
	primeSigned[int32]("int32")
	primeSigned[int64]("int64")
	primeSigned[kit.NInt8]("NInt8")
	primeSigned[kit.NInt16]("NInt16")
	primeSigned[kit.NInt32]("NInt32")
	primeSigned[kit.NInt64]("NInt64")
	primeUnsigned[uint]("uint")
	primeUnsigned[uint8]("uint8")
	primeUnsigned[uint16]("uint16")
	primeUnsigned[uint32]("uint32")
	primeUnsigned[uint64]("uint64")
	primeUnsigned[uintptr]("uintptr")
	primeUnsigned[kit.NUint8]("NUint8")
	primeUnsigned[kit.NUint16]("NUint16")
	primeUnsigned[kit.NUint32]("NUint32")
	floatRow[float32]("float32")
	floatRow[float64]("float64")
	signedRow[int]("int")
	signedRow[int8]("int8")
	signedRow[int16]("int16")
	signedRow[int32]("int32")
	signedRow[int64]("int64")
	unsignedRow[uint]("uint")
	unsignedRow[uint8]("uint8")
	unsignedRow[uint16]("uint16")
	unsignedRow[uint32]("uint32")
	unsignedRow[uint64]("uint64")
	unsignedRow[uintptr]("uintptr")
	namedRows()
}

// namedRows adds instantiations with named element types (kit.NamedTypes) on the
// source side, the destination side or both: every one of the nine functions
// must treat a named type exactly like its underlying type.
func namedRows() {
	mk[kit.NFloat32, float64]("FloatAsFloat", "NFloat32", "float64", signal.FloatAsFloat[kit.NFloat32, float64])
	mk[float64, kit.NFloat32]("FloatAsFloat", "float64", "NFloat32", signal.FloatAsFloat[float64, kit.NFloat32])
	mk[kit.NFloat64, int16]("FloatAsSigned", "NFloat64", "int16", signal.FloatAsSigned[kit.NFloat64, int16])
	mk[float32, kit.NInt16]("FloatAsSigned", "float32", "NInt16", signal.FloatAsSigned[float32, kit.NInt16])
	mk[kit.NFloat32, uint8]("FloatAsUnsigned", "NFloat32", "uint8", signal.FloatAsUnsigned[kit.NFloat32, uint8])
	mk[float64, kit.NUint16]("FloatAsUnsigned", "float64", "NUint16", signal.FloatAsUnsigned[float64, kit.NUint16])
	mk[kit.NInt16, float64]("SignedAsFloat", "NInt16", "float64", signal.SignedAsFloat[kit.NInt16, float64])
	mk[int32, kit.NFloat32]("SignedAsFloat", "int32", "NFloat32", signal.SignedAsFloat[int32, kit.NFloat32])
	mk[kit.NUint8, float32]("UnsignedAsFloat", "NUint8", "float32", signal.UnsignedAsFloat[kit.NUint8, float32])
	mk[uint16, kit.NFloat64]("UnsignedAsFloat", "uint16", "NFloat64", signal.UnsignedAsFloat[uint16, kit.NFloat64])
	mk[kit.NInt16, int16]("SignedAsSigned", "NInt16", "int16", signal.SignedAsSigned[kit.NInt16, int16])
	mk[int16, kit.NInt8]("SignedAsSigned", "int16", "NInt8", signal.SignedAsSigned[int16, kit.NInt8])
	mk[kit.NInt8, kit.NInt32]("SignedAsSigned", "NInt8", "NInt32", signal.SignedAsSigned[kit.NInt8, kit.NInt32])
	mk[int64, kit.NInt16]("SignedAsSigned", "int64", "NInt16", signal.SignedAsSigned[int64, kit.NInt16])
	mk[kit.NInt16, uint16]("SignedAsUnsigned", "NInt16", "uint16", signal.SignedAsUnsigned[kit.NInt16, uint16])
	mk[int8, kit.NUint16]("SignedAsUnsigned", "int8", "NUint16", signal.SignedAsUnsigned[int8, kit.NUint16])
	mk[kit.NInt32, kit.NUint8]("SignedAsUnsigned", "NInt32", "NUint8", signal.SignedAsUnsigned[kit.NInt32, kit.NUint8])
	mk[kit.NUint16, int16]("UnsignedAsSigned", "NUint16", "int16", signal.UnsignedAsSigned[kit.NUint16, int16])
	mk[uint8, kit.NInt16]("UnsignedAsSigned", "uint8", "NInt16", signal.UnsignedAsSigned[uint8, kit.NInt16])
	mk[kit.NUint32, kit.NInt8]("UnsignedAsSigned", "NUint32", "NInt8", signal.UnsignedAsSigned[kit.NUint32, kit.NInt8])
	mk[kit.NUint8, uint16]("UnsignedAsUnsigned", "NUint8", "uint16", signal.UnsignedAsUnsigned[kit.NUint8, uint16])
	mk[uint16, kit.NUint8]("UnsignedAsUnsigned", "uint16", "NUint8", signal.UnsignedAsUnsigned[uint16, kit.NUint8])
	mk[kit.NUint16, kit.NUint16]("UnsignedAsUnsigned", "NUint16", "NUint16", signal.UnsignedAsUnsigned[kit.NUint16, kit.NUint16])
	mk[kit.NInt64, kit.NFloat64]("SignedAsFloat", "NInt64", "NFloat64", signal.SignedAsFloat[kit.NInt64, kit.NFloat64])
	// the way back for the round trips of C07 and C09
	mk[float64, kit.NInt16]("FloatAsSigned", "float64", "NInt16", signal.FloatAsSigned[float64, kit.NInt16])
	mk[kit.NFloat32, int32]("FloatAsSigned", "NFloat32", "int32", signal.FloatAsSigned[kit.NFloat32, int32])
	mk[float32, kit.NUint8]("FloatAsUnsigned", "float32", "NUint8", signal.FloatAsUnsigned[float32, kit.NUint8])
	mk[kit.NFloat64, uint16]("FloatAsUnsigned", "NFloat64", "uint16", signal.FloatAsUnsigned[kit.NFloat64, uint16])
	mk[kit.NFloat64, kit.NInt64]("FloatAsSigned", "NFloat64", "NInt64", signal.FloatAsSigned[kit.NFloat64, kit.NInt64])
	mk[kit.NInt32, int8]("SignedAsSigned", "NInt32", "int8", signal.SignedAsSigned[kit.NInt32, int8])
	mk[kit.NUint16, int8]("UnsignedAsSigned", "NUint16", "int8", signal.UnsignedAsSigned[kit.NUint16, int8])
	mk[kit.NInt16, uint8]("SignedAsUnsigned", "NInt16", "uint8", signal.SignedAsUnsigned[kit.NInt16, uint8])
	mk[kit.NFloat32, int16]("FloatAsSigned", "NFloat32", "int16", signal.FloatAsSigned[kit.NFloat32, int16])
	mk[int16, kit.NFloat32]("SignedAsFloat", "int16", "NFloat32", signal.SignedAsFloat[int16, kit.NFloat32])
}
