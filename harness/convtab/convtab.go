// Package convtab is the table of all 169 instantiations of the nine
// sample-format conversions, type-erased so that oracles can be written once.
package convtab

import (
	"golang.org/x/exp/constraints"
	"pipelined.dev/signal"
	"verif/harness/kit"
)

// BlockFn converts a block of samples through a pair of 1-channel buffers.
// Integer samples travel as amplitudes (code for signed types, code-2^(d-1)
// for unsigned types), floating samples as float64 (exact for float32).
// Exactly one of inI/inF and one of outI/outF is used, by the kinds of S and D.
type BlockFn func(inI []int64, inF []float64, outI []int64, outF []float64)

// Entry is one instantiation.
type Entry struct {
	Fn       string // FloatAsFloat ... UnsignedAsUnsigned
	S, D     kit.TypeInfo
	Convert  func(src, dst kit.AnyBuf) int
	NewBlock func() BlockFn // each returned BlockFn owns its buffers (one per goroutine)
	// NewBlockFix is NewBlock with a fixture construction order for the source:
	// 0: filled and converted through the same header; 1: the converted header is
	// a Slice(0,n) taken before the samples were written through the parent;
	// 2: the samples are written through a Slice(0,n) alias and the never-written
	// parent header is converted.
	NewBlockFix func(fix int) BlockFn
	// NewBlockShape is NewBlockFix with buffers of the given channel count (the n
	// values occupy the first n interleaved positions of ceil(n/channels) frames;
	// the rest of the last frame holds zeros and is ignored).
	NewBlockShape func(fix, channels int) BlockFn
	// Prepared allocates typed buffers (C channels, sFrames / dFrames long, the
	// destination optionally a window with spare capacity) and returns a closure
	// that only performs the conversion - for allocation measurements.
	Prepared func(C, sFrames, dFrames int, window bool) func()
}

func (e *Entry) Key() string    { return e.S.Name + "/" + e.D.Name }
func (e *Entry) String() string { return e.Fn + "[" + e.S.Name + "," + e.D.Name + "]" }

// Entries lists all 169 instantiations in a fixed order.
var Entries []*Entry
var byKey = map[string]*Entry{}

// Lookup finds the conversion from element type s to d.
func Lookup(s, d string) *Entry { return byKey[s+"/"+d] }

// Select returns the entries of the given functions (all if none given).
func Select(fns ...string) []*Entry {
	var out []*Entry
	for _, e := range Entries {
		if len(fns) == 0 {
			out = append(out, e)
			continue
		}
		for _, f := range fns {
			if e.Fn == f {
				out = append(out, e)
			}
		}
	}
	return out
}

// AmpToCode maps an amplitude to the sample code of an integer format.
func AmpToCode(ti kit.TypeInfo, a int64) kit.Val {
	if ti.Kind == kit.Signed {
		return kit.IV(a)
	}
	return kit.UV(uint64(a) + 1<<(ti.Bits-1))
}

// CodeToAmp is the inverse of AmpToCode.
func CodeToAmp(ti kit.TypeInfo, v kit.Val) int64 {
	if ti.Kind == kit.Signed {
		return v.I
	}
	return int64(v.U - 1<<(ti.Bits-1))
}

func ampToCode[T signal.SignalTypes](signed bool, half uint64, a int64) T {
	if signed {
		return T(a)
	}
	return T(uint64(a) + half)
}

func codeToAmp[T signal.SignalTypes](signed bool, half uint64, x T) int64 {
	if signed {
		return int64(x)
	}
	return int64(uint64(x) - half)
}

func mk[S, D signal.SignalTypes](fn, s, d string, conv func(*signal.Buffer[S], *signal.Buffer[D]) int) {
	e := &Entry{Fn: fn, S: kit.Info(s), D: kit.Info(d)}
	e.Convert = func(src, dst kit.AnyBuf) int {
		return conv(src.Raw().(*signal.Buffer[S]), dst.Raw().(*signal.Buffer[D]))
	}
	e.Prepared = func(C, sFrames, dFrames int, window bool) func() {
		src := signal.Alloc[S](signal.Allocator{Channels: C, Length: sFrames, Capacity: sFrames})
		dst := signal.Alloc[D](signal.Allocator{Channels: C, Length: dFrames, Capacity: dFrames})
		if window {
			dst = signal.Alloc[D](signal.Allocator{Channels: C, Length: dFrames + 2, Capacity: dFrames + 5}).Slice(1, dFrames+1)
		}
		return func() { conv(src, dst) }
	}
	sk, dk := e.S.Kind, e.D.Kind
	sHalf, dHalf := uint64(1)<<(e.S.Bits-1), uint64(1)<<(e.D.Bits-1)
	e.NewBlock = func() BlockFn { return e.NewBlockFix(0) }
	e.NewBlockFix = func(fix int) BlockFn { return e.NewBlockShape(fix, 1) }
	e.NewBlockShape = func(fix, channels int) BlockFn {
		if channels < 1 {
			channels = 1
		}
		var src, csrc *signal.Buffer[S] // src: written through; csrc: converted
		var dst *signal.Buffer[D]
		size := -1
		return func(inI []int64, inF []float64, outI []int64, outF []float64) {
			n := len(inI)
			if sk == kit.Float {
				n = len(inF)
			}
			if n != size || fix != 0 {
				fr := (n + channels - 1) / channels
				a := signal.Allocator{Channels: channels, Length: fr, Capacity: fr}
				if fix == 0 && n%channels != 0 {
					// both buffers end in a partial last frame holding exactly the n values
					a.Length = n / channels
				}
				base := signal.Alloc[S](a)
				dbuf := signal.Alloc[D](a)
				if fix == 3 {
					// both buffers come out of a pool after a round trip through it
					ps, pd := signal.PoolAlloc[S](a), signal.PoolAlloc[D](a)
					b1, d1 := ps.Get(), pd.Get()
					b1.AppendSample(1)
					ps.Put(b1)
					pd.Put(d1)
					base, dbuf = ps.Get(), pd.Get()
				}
				if fix == 4 {
					// both buffers grew out of an empty window at the end of another buffer
					// (Slice(fr,fr), then an Append that moves them to storage of their own)
					gs, gd := base.Slice(fr, fr), dbuf.Slice(fr, fr)
					gs.Append(base)
					gd.Append(dbuf)
					base, dbuf = gs, gd
				}
				src, csrc, dst, size = base, base, dbuf, n
				for base.Len() < n && a.Length < fr {
					base.AppendSample(0)
					dst.AppendSample(D(1)) // stale content a skipped conversion would leave behind
				}
				switch fix {
				case 1:
					csrc = base.Slice(0, fr)
				case 2:
					src = base.Slice(0, fr)
				}
			}
			switch sk {
			case kit.Float:
				for i := 0; i < n; i++ {
					src.SetSample(i, S(inF[i]))
				}
			case kit.Signed:
				for i := 0; i < n; i++ {
					src.SetSample(i, ampToCode[S](true, sHalf, inI[i]))
				}
			default:
				for i := 0; i < n; i++ {
					src.SetSample(i, ampToCode[S](false, sHalf, inI[i]))
				}
			}
			conv(csrc, dst)
			switch dk {
			case kit.Float:
				for i := 0; i < n; i++ {
					outF[i] = float64(dst.Sample(i))
				}
			case kit.Signed:
				for i := 0; i < n; i++ {
					outI[i] = codeToAmp[D](true, dHalf, dst.Sample(i))
				}
			default:
				for i := 0; i < n; i++ {
					outI[i] = codeToAmp[D](false, dHalf, dst.Sample(i))
				}
			}
		}
	}
	Entries = append(Entries, e)
	byKey[e.Key()] = e
}

func floatRow[S constraints.Float](s string) {
	mk[S, float32]("FloatAsFloat", s, "float32", signal.FloatAsFloat[S, float32])
	mk[S, float64]("FloatAsFloat", s, "float64", signal.FloatAsFloat[S, float64])
	mk[S, int]("FloatAsSigned", s, "int", signal.FloatAsSigned[S, int])
	mk[S, int8]("FloatAsSigned", s, "int8", signal.FloatAsSigned[S, int8])
	mk[S, int16]("FloatAsSigned", s, "int16", signal.FloatAsSigned[S, int16])
	mk[S, int32]("FloatAsSigned", s, "int32", signal.FloatAsSigned[S, int32])
	mk[S, int64]("FloatAsSigned", s, "int64", signal.FloatAsSigned[S, int64])
	mk[S, uint]("FloatAsUnsigned", s, "uint", signal.FloatAsUnsigned[S, uint])
	mk[S, uint8]("FloatAsUnsigned", s, "uint8", signal.FloatAsUnsigned[S, uint8])
	mk[S, uint16]("FloatAsUnsigned", s, "uint16", signal.FloatAsUnsigned[S, uint16])
	mk[S, uint32]("FloatAsUnsigned", s, "uint32", signal.FloatAsUnsigned[S, uint32])
	mk[S, uint64]("FloatAsUnsigned", s, "uint64", signal.FloatAsUnsigned[S, uint64])
	mk[S, uintptr]("FloatAsUnsigned", s, "uintptr", signal.FloatAsUnsigned[S, uintptr])
}

func signedRow[S constraints.Signed](s string) {
	mk[S, float32]("SignedAsFloat", s, "float32", signal.SignedAsFloat[S, float32])
	mk[S, float64]("SignedAsFloat", s, "float64", signal.SignedAsFloat[S, float64])
	mk[S, int]("SignedAsSigned", s, "int", signal.SignedAsSigned[S, int])
	mk[S, int8]("SignedAsSigned", s, "int8", signal.SignedAsSigned[S, int8])
	mk[S, int16]("SignedAsSigned", s, "int16", signal.SignedAsSigned[S, int16])
	mk[S, int32]("SignedAsSigned", s, "int32", signal.SignedAsSigned[S, int32])
	mk[S, int64]("SignedAsSigned", s, "int64", signal.SignedAsSigned[S, int64])
	mk[S, uint]("SignedAsUnsigned", s, "uint", signal.SignedAsUnsigned[S, uint])
	mk[S, uint8]("SignedAsUnsigned", s, "uint8", signal.SignedAsUnsigned[S, uint8])
	mk[S, uint16]("SignedAsUnsigned", s, "uint16", signal.SignedAsUnsigned[S, uint16])
	mk[S, uint32]("SignedAsUnsigned", s, "uint32", signal.SignedAsUnsigned[S, uint32])
	mk[S, uint64]("SignedAsUnsigned", s, "uint64", signal.SignedAsUnsigned[S, uint64])
	mk[S, uintptr]("SignedAsUnsigned", s, "uintptr", signal.SignedAsUnsigned[S, uintptr])
}

func unsignedRow[S constraints.Unsigned](s string) {
	mk[S, float32]("UnsignedAsFloat", s, "float32", signal.UnsignedAsFloat[S, float32])
	mk[S, float64]("UnsignedAsFloat", s, "float64", signal.UnsignedAsFloat[S, float64])
	mk[S, int]("UnsignedAsSigned", s, "int", signal.UnsignedAsSigned[S, int])
	mk[S, int8]("UnsignedAsSigned", s, "int8", signal.UnsignedAsSigned[S, int8])
	mk[S, int16]("UnsignedAsSigned", s, "int16", signal.UnsignedAsSigned[S, int16])
	mk[S, int32]("UnsignedAsSigned", s, "int32", signal.UnsignedAsSigned[S, int32])
	mk[S, int64]("UnsignedAsSigned", s, "int64", signal.UnsignedAsSigned[S, int64])
	mk[S, uint]("UnsignedAsUnsigned", s, "uint", signal.UnsignedAsUnsigned[S, uint])
	mk[S, uint8]("UnsignedAsUnsigned", s, "uint8", signal.UnsignedAsUnsigned[S, uint8])
	mk[S, uint16]("UnsignedAsUnsigned", s, "uint16", signal.UnsignedAsUnsigned[S, uint16])
	mk[S, uint32]("UnsignedAsUnsigned", s, "uint32", signal.UnsignedAsUnsigned[S, uint32])
	mk[S, uint64]("UnsignedAsUnsigned", s, "uint64", signal.UnsignedAsUnsigned[S, uint64])
	mk[S, uintptr]("UnsignedAsUnsigned", s, "uintptr", signal.UnsignedAsUnsigned[S, uintptr])
}

func init() {
	floatRow[float32]("float32")
	floatRow[float64]("float64")
	signedRow[int]("int")
	signedRow[int8]("int8")
	signedRow[int16]("int16")
	signedRow[int32]("int32")
	signedRow[int64]("int64")
	unsignedRow[uint]("uint")
	unsignedRow[uint8]("uint8")
	unsignedRow[uint16]("uint16")
	unsignedRow[uint32]("uint32")
	unsignedRow[uint64]("uint64")
	unsignedRow[uintptr]("uintptr")
}
