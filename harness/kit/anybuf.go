package kit

import (
	"pipelined.dev/signal"
)

// AnyBuf is a type-erased *signal.Buffer[T]; samples travel as exact Vals.
type AnyBuf interface {
	Hdr() Hdr
	Len() int
	Get(i int) Val
	Set(i int, v Val)
	Slice(s, e int) AnyBuf
	AppendSample(v Val)
	Snap() []Val // every sample in [0, Len)
	Raw() any
	Type() TypeInfo
}

// TBuf implements AnyBuf for one element type.
type TBuf[T signal.SignalTypes] struct {
	B  *signal.Buffer[T]
	TI TypeInfo
}

func (b TBuf[T]) Hdr() Hdr              { return HdrOf(b.B) }
func (b TBuf[T]) Len() int              { return b.B.Len() }
func (b TBuf[T]) Get(i int) Val         { return Of(b.B.Sample(i)) }
func (b TBuf[T]) Set(i int, v Val)      { b.B.SetSample(i, As[T](v)) }
func (b TBuf[T]) Slice(s, e int) AnyBuf { return TBuf[T]{b.B.Slice(s, e), b.TI} }
func (b TBuf[T]) AppendSample(v Val)    { b.B.AppendSample(As[T](v)) }
func (b TBuf[T]) Raw() any              { return b.B }
func (b TBuf[T]) Type() TypeInfo        { return b.TI }
func (b TBuf[T]) Snap() []Val {
	out := make([]Val, b.B.Len())
	for i := range out {
		out[i] = Of(b.B.Sample(i))
	}
	return out
}

func allocT[T signal.SignalTypes](name string) func(signal.Allocator) AnyBuf {
	ti := Info(name)
	return func(a signal.Allocator) AnyBuf { return TBuf[T]{signal.Alloc[T](a), ti} }
}

var allocators = map[string]func(signal.Allocator) AnyBuf{}

func init() {
	allocators["int"] = allocT[int]("int")
	allocators["int8"] = allocT[int8]("int8")
	allocators["int16"] = allocT[int16]("int16")
	allocators["int32"] = allocT[int32]("int32")
	allocators["int64"] = allocT[int64]("int64")
	allocators["uint"] = allocT[uint]("uint")
	allocators["uint8"] = allocT[uint8]("uint8")
	allocators["uint16"] = allocT[uint16]("uint16")
	allocators["uint32"] = allocT[uint32]("uint32")
	allocators["uint64"] = allocT[uint64]("uint64")
	allocators["uintptr"] = allocT[uintptr]("uintptr")
	allocators["float32"] = allocT[float32]("float32")
	allocators["float64"] = allocT[float64]("float64")
	allocators["NInt"] = allocT[NInt]("NInt")
	allocators["NInt8"] = allocT[NInt8]("NInt8")
	allocators["NInt16"] = allocT[NInt16]("NInt16")
	allocators["NInt32"] = allocT[NInt32]("NInt32")
	allocators["NInt64"] = allocT[NInt64]("NInt64")
	allocators["NUint"] = allocT[NUint]("NUint")
	allocators["NUint8"] = allocT[NUint8]("NUint8")
	allocators["NUint16"] = allocT[NUint16]("NUint16")
	allocators["NUint32"] = allocT[NUint32]("NUint32")
	allocators["NUint64"] = allocT[NUint64]("NUint64")
	allocators["NUintptr"] = allocT[NUintptr]("NUintptr")
	allocators["NFloat32"] = allocT[NFloat32]("NFloat32")
	allocators["NFloat64"] = allocT[NFloat64]("NFloat64")
}

// AllocAny allocates a buffer of the named element type.
func AllocAny(name string, a signal.Allocator) AnyBuf { return allocators[name](a) }

// AnyRoot allocates a root (length == capacity) and fills it with sentinels.
func AnyRoot(name string, C, K int) AnyBuf {
	r := AllocAny(name, signal.Allocator{Channels: C, Length: K, Capacity: K})
	for p := 0; p < C*K; p++ {
		r.Set(p, IV(Sentinel(p)))
	}
	return r
}

// SameVal compares two exact values of one element type: integers by value,
// floats by bit pattern with all NaNs equal.
func SameVal(a, b Val) bool {
	if a.K != b.K {
		return false
	}
	switch a.K {
	case 'i':
		return a.I == b.I
	case 'u':
		return a.U == b.U
	default:
		return Same(a.F, b.F)
	}
}

// DiffVals describes the first difference between two value lists.
func DiffVals(what string, got, want []Val) string {
	if len(got) != len(want) {
		return what + ": length differs"
	}
	for i := range got {
		if !SameVal(got[i], want[i]) {
			return what + ": position " + itoa(i) + " holds " + got[i].String() + ", want " + want[i].String()
		}
	}
	return ""
}

func itoa(i int) string { return IV(int64(i)).String() }
