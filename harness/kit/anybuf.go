package kit

import (
	"pipelined.dev/signal"
)

// AnyBuf is a type-erased *signal.Buffer[T]; samples travel as exact Vals.
type AnyBuf interface {
	Hdr() Hdr
	Len() int
	Get(i int) Val
	Set(i int, v Val)
	Slice(s, e int) AnyBuf
	AppendSample(v Val)
	Snap() []Val // every sample in [0, Len)
	Raw() any
	Type() TypeInfo
	Append(src AnyBuf)     // src must have the same element type
	Channel(c int) AnyChan // the channel view
	BufferIndex(c, i int) int
	WriteVals(vs []Val) int // signal.Write of the values (element type T) into the buffer
	// ReadVals: signal.Read into a []T of length n; returns the slice contents and the count.
	ReadVals(n int) ([]Val, int)
	// WriteStripedVals / ReadStripedVals: striped forms with []T channels (nil entries allowed / lens<0 = nil).
	WriteStripedVals(in [][]Val) int
	ReadStripedVals(lens []int) ([][]Val, int)
}

// AnyChan is a type-erased signal.C[T].
type AnyChan interface {
	Sample(i int) Val
	SetSample(i int, v Val)
	BufferIndex(c, i int) int
	Channels() int
	Length() int
	Capacity() int
}

type tChan[T signal.SignalTypes] struct{ c signal.C[T] }

func (c tChan[T]) Sample(i int) Val          { return Of(c.c.Sample(i)) }
func (c tChan[T]) SetSample(i int, v Val)    { c.c.SetSample(i, As[T](v)) }
func (c tChan[T]) BufferIndex(ch, i int) int { return c.c.BufferIndex(ch, i) }
func (c tChan[T]) Channels() int             { return c.c.Channels() }
func (c tChan[T]) Length() int               { return c.c.Length() }
func (c tChan[T]) Capacity() int             { return c.c.Capacity() }

func (b TBuf[T]) WriteVals(vs []Val) int {
	in := make([]T, len(vs))
	for i, v := range vs {
		in[i] = As[T](v)
	}
	return signal.Write(in, b.B)
}

func (b TBuf[T]) ReadVals(n int) ([]Val, int) {
	out := make([]T, n)
	ret := signal.Read(b.B, out)
	vs := make([]Val, n)
	for i, x := range out {
		vs[i] = Of(x)
	}
	return vs, ret
}

func (b TBuf[T]) WriteStripedVals(in [][]Val) int {
	tin := make([][]T, len(in))
	for c, ch := range in {
		if ch == nil {
			continue
		}
		tin[c] = make([]T, len(ch))
		for i, v := range ch {
			tin[c][i] = As[T](v)
		}
	}
	return signal.WriteStriped(tin, b.B)
}

func (b TBuf[T]) ReadStripedVals(lens []int) ([][]Val, int) {
	out := make([][]T, len(lens))
	for c, l := range lens {
		if l >= 0 {
			out[c] = make([]T, l)
		}
	}
	ret := signal.ReadStriped(b.B, out)
	vs := make([][]Val, len(lens))
	for c := range out {
		if out[c] == nil {
			continue
		}
		vs[c] = make([]Val, len(out[c]))
		for i, x := range out[c] {
			vs[c][i] = Of(x)
		}
	}
	return vs, ret
}

func (b TBuf[T]) Append(src AnyBuf)        { b.B.Append(src.Raw().(*signal.Buffer[T])) }
func (b TBuf[T]) Channel(c int) AnyChan    { return tChan[T]{b.B.Channel(c)} }
func (b TBuf[T]) BufferIndex(c, i int) int { return b.B.BufferIndex(c, i) }

// AnyPool is a type-erased signal.PoolAllocator[T].
type AnyPool interface {
	Get() AnyBuf
	Put(b AnyBuf)
	Copy() AnyPool // a by-value copy of the allocator (shares the pool)
}

type tPool[T signal.SignalTypes] struct {
	p  *signal.PoolAllocator[T]
	ti TypeInfo
}

func (p tPool[T]) Get() AnyBuf  { return TBuf[T]{p.p.Get(), p.ti} }
func (p tPool[T]) Put(b AnyBuf) { p.p.Put(b.Raw().(*signal.Buffer[T])) }
func (p tPool[T]) Copy() AnyPool {
	cp := *p.p
	return tPool[T]{&cp, p.ti}
}

func poolT[T signal.SignalTypes](name string) func(signal.Allocator) AnyPool {
	ti := Info(name)
	return func(a signal.Allocator) AnyPool {
		p := signal.PoolAlloc[T](a)
		return tPool[T]{&p, ti}
	}
}

var pools = map[string]func(signal.Allocator) AnyPool{}

// NewAnyPool creates a pool allocator of the named element type.
func NewAnyPool(name string, a signal.Allocator) AnyPool { return pools[name](a) }

// TBuf implements AnyBuf for one element type.
type TBuf[T signal.SignalTypes] struct {
	B  *signal.Buffer[T]
	TI TypeInfo
}

func (b TBuf[T]) Hdr() Hdr              { return HdrOf(b.B) }
func (b TBuf[T]) Len() int              { return b.B.Len() }
func (b TBuf[T]) Get(i int) Val         { return Of(b.B.Sample(i)) }
func (b TBuf[T]) Set(i int, v Val)      { b.B.SetSample(i, As[T](v)) }
func (b TBuf[T]) Slice(s, e int) AnyBuf { return TBuf[T]{b.B.Slice(s, e), b.TI} }
func (b TBuf[T]) AppendSample(v Val)    { b.B.AppendSample(As[T](v)) }
func (b TBuf[T]) Raw() any              { return b.B }
func (b TBuf[T]) Type() TypeInfo        { return b.TI }
func (b TBuf[T]) Snap() []Val {
	out := make([]Val, b.B.Len())
	for i := range out {
		out[i] = Of(b.B.Sample(i))
	}
	return out
}

func allocT[T signal.SignalTypes](name string) func(signal.Allocator) AnyBuf {
	ti := Info(name)
	return func(a signal.Allocator) AnyBuf { return TBuf[T]{signal.Alloc[T](a), ti} }
}

var allocators = map[string]func(signal.Allocator) AnyBuf{}

func init() {
	allocators["int"] = allocT[int]("int")
	allocators["int8"] = allocT[int8]("int8")
	allocators["int16"] = allocT[int16]("int16")
	allocators["int32"] = allocT[int32]("int32")
	allocators["int64"] = allocT[int64]("int64")
	allocators["uint"] = allocT[uint]("uint")
	allocators["uint8"] = allocT[uint8]("uint8")
	allocators["uint16"] = allocT[uint16]("uint16")
	allocators["uint32"] = allocT[uint32]("uint32")
	allocators["uint64"] = allocT[uint64]("uint64")
	allocators["uintptr"] = allocT[uintptr]("uintptr")
	allocators["float32"] = allocT[float32]("float32")
	allocators["float64"] = allocT[float64]("float64")
	allocators["NInt"] = allocT[NInt]("NInt")
	allocators["NInt8"] = allocT[NInt8]("NInt8")
	allocators["NInt16"] = allocT[NInt16]("NInt16")
	allocators["NInt32"] = allocT[NInt32]("NInt32")
	allocators["NInt64"] = allocT[NInt64]("NInt64")
	allocators["NUint"] = allocT[NUint]("NUint")
	allocators["NUint8"] = allocT[NUint8]("NUint8")
	allocators["NUint16"] = allocT[NUint16]("NUint16")
	allocators["NUint32"] = allocT[NUint32]("NUint32")
	allocators["NUint64"] = allocT[NUint64]("NUint64")
	allocators["NUintptr"] = allocT[NUintptr]("NUintptr")
	allocators["NFloat32"] = allocT[NFloat32]("NFloat32")
	allocators["NFloat64"] = allocT[NFloat64]("NFloat64")
	allocators["MInt32"] = allocT[MInt32]("MInt32")
	allocators["MUint16"] = allocT[MUint16]("MUint16")
	allocators["MFloat32"] = allocT[MFloat32]("MFloat32")

	pools["int"] = poolT[int]("int")
	pools["int8"] = poolT[int8]("int8")
	pools["int16"] = poolT[int16]("int16")
	pools["int32"] = poolT[int32]("int32")
	pools["int64"] = poolT[int64]("int64")
	pools["uint"] = poolT[uint]("uint")
	pools["uint8"] = poolT[uint8]("uint8")
	pools["uint16"] = poolT[uint16]("uint16")
	pools["uint32"] = poolT[uint32]("uint32")
	pools["uint64"] = poolT[uint64]("uint64")
	pools["uintptr"] = poolT[uintptr]("uintptr")
	pools["float32"] = poolT[float32]("float32")
	pools["float64"] = poolT[float64]("float64")
	pools["NInt16"] = poolT[NInt16]("NInt16")
	pools["NUint8"] = poolT[NUint8]("NUint8")
	pools["NFloat32"] = poolT[NFloat32]("NFloat32")
	pools["MInt32"] = poolT[MInt32]("MInt32")
	pools["MUint16"] = poolT[MUint16]("MUint16")
	pools["MFloat32"] = poolT[MFloat32]("MFloat32")
}

// SomeNamed are three named element types (signed, unsigned, floating) that the
// checks over "every element type" add to the 13 built-in ones.
var SomeNamed = []string{"NInt16", "NUint8", "NFloat32"}

// Three distinct function-local types that are all called "Sample" (their
// reflect.Type.String() is identical) with different underlying types.
func init() {
	func() {
		type Sample int16
		allocators["LSample16"] = allocT[Sample]("LSample16")
	}()
	func() {
		type Sample int64
		allocators["LSample64"] = allocT[Sample]("LSample64")
	}()
	func() {
		type Sample float32
		allocators["LSampleF32"] = allocT[Sample]("LSampleF32")
	}()
}

// AllocAny allocates a buffer of the named element type.
func AllocAny(name string, a signal.Allocator) AnyBuf { return allocators[name](a) }

// AnyRoot allocates a root (length == capacity) and fills it with sentinels.
func AnyRoot(name string, C, K int) AnyBuf {
	r := AllocAny(name, signal.Allocator{Channels: C, Length: K, Capacity: K})
	for p := 0; p < C*K; p++ {
		r.Set(p, IV(Sentinel(p)))
	}
	return r
}

// AnyRootWindow is the type-erased kit.RootWindow: a sentinel-filled root and
// the window root.Slice(a,b) (+ partial appended samples), built in construction
// order fix (0: fill through the root header then slice; 1: slice first, then
// fill through the root; 2: fill through an alias, then slice from the root;
// 4+s: content appended in two pieces, see RootWindow).
func AnyRootWindow(name string, C, K, a, b, partial, fix int) (root, w AnyBuf) {
	root = AllocAny(name, signal.Allocator{Channels: C, Length: K, Capacity: K})
	fillVia := root
	switch fix {
	case 1:
		w = root.Slice(a, b)
	case 2:
		fillVia = root.Slice(0, K)
	case 3:
		// as 2; and when the window is the whole root, the never-written root header
		// itself is the "window" (callers must then fill through an alias as well)
		fillVia = root.Slice(0, K)
		if a == 0 && b == K && partial == 0 {
			w = root
		}
	}
	for p := 0; p < C*K; p++ {
		fillVia.Set(p, IV(Sentinel(p)))
	}
	defer func() {
		// other windows of the same parent are cut while the window under test is alive
		_ = root.Slice(0, K/2)
		_ = root.Slice(K/2, K)
		_ = root.Slice(K, K)
	}()
	if n := C*(b-a) + partial; fix >= 4 && n >= 2 {
		n1 := fix - 3
		if n1 > n-1 {
			n1 = n - 1
		}
		val := func(q int) Val {
			if q < C*(b-a) {
				return IV(Sentinel(C*a + q))
			}
			return IV(PartialVal(q - C*(b-a)))
		}
		w = root.Slice(a, a)
		for q := 0; q < n1; q++ {
			w.AppendSample(val(q))
		}
		rest := AllocAny(name, signal.Allocator{Channels: C, Length: 0, Capacity: (n-n1)/C + 1})
		for q := n1; q < n; q++ {
			rest.AppendSample(val(q))
		}
		w.Append(rest)
		return root, w
	}
	if w == nil {
		w = root.Slice(a, b)
	}
	for k := 0; k < partial; k++ {
		w.AppendSample(IV(PartialVal(k)))
	}
	return root, w
}

// SameVal compares two exact values of one element type: integers by value,
// floats by bit pattern with all NaNs equal.
func SameVal(a, b Val) bool {
	if a.K != b.K {
		return false
	}
	switch a.K {
	case 'i':
		return a.I == b.I
	case 'u':
		return a.U == b.U
	default:
		return Same(a.F, b.F)
	}
}

// DiffVals describes the first difference between two value lists.
func DiffVals(what string, got, want []Val) string {
	if len(got) != len(want) {
		return what + ": length differs"
	}
	for i := range got {
		if !SameVal(got[i], want[i]) {
			return what + ": position " + itoa(i) + " holds " + got[i].String() + ", want " + want[i].String()
		}
	}
	return ""
}

func itoa(i int) string { return IV(int64(i)).String() }
