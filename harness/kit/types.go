// Package kit is the shared toolkit of the verification harness: element-type
// tables, exact sample values, buffer fixtures and snapshots, statistics,
// replay files and known-finding bookkeeping.
package kit

import (
	"encoding/json"
	"fmt"
	"math"
	"strconv"
	"unsafe"

	"pipelined.dev/signal"
)

// Kind is the numeric family of an element type.
type Kind int

const (
	Signed Kind = iota
	Unsigned
	Float
)

func (k Kind) String() string { return [...]string{"signed", "unsigned", "float"}[k] }

// TypeInfo describes one element type the harness instantiates.
type TypeInfo struct {
	Name  string
	Kind  Kind
	Bits  int
	Named bool
}

// Named element types (the property C13 quantifies over "named types derived
// from the built-in ones").
type (
	NInt     int
	NInt8    int8
	NInt16   int16
	NInt32   int32
	NInt64   int64
	NUint    uint
	NUint8   uint8
	NUint16  uint16
	NUint32  uint32
	NUint64  uint64
	NUintptr uintptr
	NFloat32 float32
	NFloat64 float64
)

// Named element types that carry methods, with names a library might look for.
// A method set does not change what the type is: its samples are as wide as
// its underlying type and are stored as such.
type (
	MInt32   int32
	MUint16  uint16
	MFloat32 float32
)

func (MInt32) BitDepth() signal.BitDepth   { return 24 }
func (MInt32) String() string              { return "MInt32" }
func (MUint16) BitDepth() signal.BitDepth  { return 8 }
func (MUint16) Len() int                   { return 1 }
func (MUint16) Channels() int              { return 7 }
func (MFloat32) BitDepth() signal.BitDepth { return 16 }
func (MFloat32) Float64() float64          { return 0 }
func (MFloat32) Sample(int) float64        { return 0 }

// NaNs: quiet and signalling NaN bit patterns of float64, payload in the high bits, in the low
// bits only (what a narrowing to float32 shifts out), of both signs.
var NaNs = []float64{
	math.NaN(),
	math.Float64frombits(0x7FF8000000000000), math.Float64frombits(0xFFF8000000000000),
	math.Float64frombits(0x7FF0000000000001), math.Float64frombits(0xFFF0000000000001),
	math.Float64frombits(0x7FF000001FFFFFFF), math.Float64frombits(0x7FF4000000000000),
	math.Float64frombits(0x7FF0000020000000), math.Float64frombits(0xFFFFFFFFFFFFFFFF),
}

// Builtins lists the 13 built-in instantiations of signal.SignalTypes.
var Builtins = []TypeInfo{
	{"int", Signed, strconv.IntSize, false},
	{"int8", Signed, 8, false},
	{"int16", Signed, 16, false},
	{"int32", Signed, 32, false},
	{"int64", Signed, 64, false},
	{"uint", Unsigned, strconv.IntSize, false},
	{"uint8", Unsigned, 8, false},
	{"uint16", Unsigned, 16, false},
	{"uint32", Unsigned, 32, false},
	{"uint64", Unsigned, 64, false},
	{"uintptr", Unsigned, int(8 * unsafe.Sizeof(uintptr(0))), false},
	{"float32", Float, 32, false},
	{"float64", Float, 64, false},
}

// NamedTypes lists the 13 named types over the built-ins.
var NamedTypes = []TypeInfo{
	{"NInt", Signed, strconv.IntSize, true},
	{"NInt8", Signed, 8, true},
	{"NInt16", Signed, 16, true},
	{"NInt32", Signed, 32, true},
	{"NInt64", Signed, 64, true},
	{"NUint", Unsigned, strconv.IntSize, true},
	{"NUint8", Unsigned, 8, true},
	{"NUint16", Unsigned, 16, true},
	{"NUint32", Unsigned, 32, true},
	{"NUint64", Unsigned, 64, true},
	{"NUintptr", Unsigned, int(8 * unsafe.Sizeof(uintptr(0))), true},
	{"NFloat32", Float, 32, true},
	{"NFloat64", Float, 64, true},
	// function-local types that are all named "Sample" (see anybuf.go)
	{"LSample16", Signed, 16, true},
	{"LSample64", Signed, 64, true},
	{"LSampleF32", Float, 32, true},
	// named types that carry methods
	{"MInt32", Signed, 32, true},
	{"MUint16", Unsigned, 16, true},
	{"MFloat32", Float, 32, true},
}

// Info returns the TypeInfo for a type name (built-in or named).
func Info(name string) TypeInfo {
	for _, t := range Builtins {
		if t.Name == name {
			return t
		}
	}
	for _, t := range NamedTypes {
		if t.Name == name {
			return t
		}
	}
	panic("kit: unknown type " + name)
}

// BuiltinNames returns the names of the 13 built-in types, filtered by kinds
// (no kinds = all).
func BuiltinNames(kinds ...Kind) []string {
	var out []string
	for _, t := range Builtins {
		if len(kinds) == 0 {
			out = append(out, t.Name)
			continue
		}
		for _, k := range kinds {
			if t.Kind == k {
				out = append(out, t.Name)
			}
		}
	}
	return out
}

// BitsOf is the bit width of T computed from its size (independent of the
// library's own BitDepth).
func BitsOf[T signal.SignalTypes]() int {
	var z T
	return int(8 * unsafe.Sizeof(z))
}

// KindOf determines the numeric family of T by arithmetic, not reflection.
func KindOf[T signal.SignalTypes]() Kind {
	one, two := T(1), T(2)
	if one/two != 0 {
		return Float
	}
	var z T
	z--
	if z < 0 {
		return Signed
	}
	return Unsigned
}

// Val is an exact sample value: a signed integer, an unsigned integer or a
// float64 (which holds every float32 exactly).
type Val struct {
	K byte // 'i', 'u' or 'f'
	I int64
	U uint64
	F float64
}

func IV(i int64) Val   { return Val{K: 'i', I: i} }
func UV(u uint64) Val  { return Val{K: 'u', U: u} }
func FV(f float64) Val { return Val{K: 'f', F: f} }

// As converts an exact value to T with Go's conversion.
func As[T signal.SignalTypes](v Val) T {
	switch v.K {
	case 'i':
		return T(v.I)
	case 'u':
		return T(v.U)
	default:
		return T(v.F)
	}
}

// Of captures x exactly.
func Of[T signal.SignalTypes](x T) Val {
	switch KindOf[T]() {
	case Signed:
		return IV(int64(x))
	case Unsigned:
		return UV(uint64(x))
	default:
		return FV(float64(x))
	}
}

// Same compares two samples by value for integers and by bit pattern for
// floats, with every NaN equal to every NaN.
func Same[T signal.SignalTypes](a, b T) bool {
	if a == b {
		if a == 0 { // distinguish -0 from +0 for floats
			return math.Signbit(float64(a)) == math.Signbit(float64(b))
		}
		return true
	}
	return a != a && b != b
}

// Str renders a sample for messages.
func Str[T signal.SignalTypes](x T) string { return Of(x).String() }

func (v Val) String() string {
	switch v.K {
	case 'i':
		return strconv.FormatInt(v.I, 10)
	case 'u':
		return strconv.FormatUint(v.U, 10)
	default:
		return strconv.FormatFloat(v.F, 'g', -1, 64)
	}
}

// Hash64 folds the value into a hash.
func (v Val) Hash64() uint64 {
	switch v.K {
	case 'i':
		return uint64(v.I)*0x9e3779b97f4a7c15 + 1
	case 'u':
		return v.U*0x9e3779b97f4a7c15 + 2
	default:
		return math.Float64bits(v.F)*0x9e3779b97f4a7c15 + 3
	}
}

type valJSON struct {
	I *int64  `json:"i,omitempty"`
	U *uint64 `json:"u,omitempty"`
	F *string `json:"f,omitempty"` // hex bit pattern of the float64
	S string  `json:"s,omitempty"` // human readable, ignored on input
}

func (v Val) MarshalJSON() ([]byte, error) {
	var j valJSON
	switch v.K {
	case 'i':
		j.I = &v.I
	case 'u':
		j.U = &v.U
	case 'f':
		s := fmt.Sprintf("0x%016x", math.Float64bits(v.F))
		j.F = &s
		j.S = v.String()
	default:
		return []byte("null"), nil
	}
	return json.Marshal(j)
}

func (v *Val) UnmarshalJSON(b []byte) error {
	var j valJSON
	if err := json.Unmarshal(b, &j); err != nil {
		return err
	}
	switch {
	case j.I != nil:
		*v = IV(*j.I)
	case j.U != nil:
		*v = UV(*j.U)
	case j.F != nil:
		bits, err := strconv.ParseUint((*j.F)[2:], 16, 64)
		if err != nil {
			return err
		}
		*v = FV(math.Float64frombits(bits))
	default:
		*v = Val{}
	}
	return nil
}

// IntRange returns the integer range of an integer type as (lo, hi) where hi
// is given as uint64 so that unsigned 64-bit bounds fit.
func IntRange(ti TypeInfo) (lo int64, hi uint64) {
	switch ti.Kind {
	case Signed:
		return -1 << (ti.Bits - 1), 1<<(ti.Bits-1) - 1
	case Unsigned:
		if ti.Bits == 64 {
			return 0, math.MaxUint64
		}
		return 0, 1<<ti.Bits - 1
	}
	panic("kit: IntRange of float type")
}
