package kit

import (
	"encoding/json"
	"errors"
	"fmt"
	"os"
	"strconv"
	"strings"
	"testing"

	"pgregory.net/rapid"
)

// Oracle bundles what every property provides: a generator, the oracle and a
// fingerprint of the canonical case.
type Oracle[C any] struct {
	Property string
	Gen      func(*rapid.T) *C
	Check    func(*C) Result
	FP       func(*C) uint64
}

// Safe runs the oracle and converts an escaping panic (a panic the oracle did
// not expect, whether from the library or from the harness) into a failure.
func (o Oracle[C]) Safe(c *C) (res Result) {
	defer func() {
		if r := recover(); r != nil {
			res.Failf("unexpected panic: %v", r)
		}
	}()
	return o.Check(c)
}

// Rapid runs the rapid engine (case count and seed come from -rapid.* flags).
func (o Oracle[C]) Rapid(t *testing.T) {
	env := GetEnv(o.Property)
	rec := NewRecorder(env, "rapid")
	defer func() { rec.Flush(!t.Failed()) }()
	rapid.Check(t, func(rt *rapid.T) {
		c := o.Gen(rt)
		res := o.Safe(c)
		rec.Case(c, &res, o.FP(c))
		if res.Fail != "" {
			Fail(rt, env, "rapid", c, res.Fail)
		}
	})
}

// Fuzz wires the same generator and oracle to Go's native fuzzer through
// rapid.MakeFuzz (the fuzzer's bytes become rapid's bit stream).
func (o Oracle[C]) Fuzz(f *testing.F) {
	env := GetEnv(o.Property)
	f.Fuzz(rapid.MakeFuzz(func(rt *rapid.T) {
		c := o.Gen(rt)
		res := o.Safe(c)
		if res.Fail != "" {
			Fail(rt, env, "fuzz", c, res.Fail)
		}
	}))
}

// One evaluates a single explicit case under an engine name (sweeps, regress).
func (o Oracle[C]) One(t TB, env Env, rec *Recorder, engine string, c *C) {
	res := o.Safe(c)
	if rec != nil {
		rec.Case(c, &res, o.FP(c))
	}
	if res.Fail != "" {
		Fail(t, env, engine, c, res.Fail)
	}
}

// Regress replays every committed case under regress/<id>/ through the oracle.
func (o Oracle[C]) Regress(t *testing.T) {
	env := GetEnv(o.Property)
	rec := NewRecorder(env, "regress")
	defer func() { rec.Flush(!t.Failed()) }()
	for _, f := range RegressFiles(env) {
		rp, err := LoadReplay(f)
		if err != nil {
			t.Fatalf("HARNESS-ERROR cannot read %s: %v", f, err)
		}
		var c C
		if err := json.Unmarshal(rp.Case, &c); err != nil {
			var ute *json.UnmarshalTypeError
			if strconv.IntSize == 32 && errors.As(err, &ute) && strings.HasPrefix(ute.Value, "number") {
				continue // a case with a 64-bit int argument: not expressible on a 32-bit build
			}
			t.Fatalf("HARNESS-ERROR cannot decode %s: %v", f, err)
		}
		res := o.Safe(&c)
		rec.Case(&c, &res, o.FP(&c))
		if res.Fail != "" {
			Fail(t, env, "regress", &c, fmt.Sprintf("%s (regression case %s)", res.Fail, f))
		}
	}
}

// Replay runs the case stored in $VERIF_REPLAY_FILE, bypassing every engine.
func (o Oracle[C]) Replay(t *testing.T) {
	path := os.Getenv("VERIF_REPLAY_FILE")
	if path == "" {
		t.Skip("no VERIF_REPLAY_FILE")
	}
	env := GetEnv(o.Property)
	rp, err := LoadReplay(path)
	if err != nil {
		t.Fatalf("HARNESS-ERROR cannot read %s: %v", path, err)
	}
	var c C
	if err := json.Unmarshal(rp.Case, &c); err != nil {
		t.Fatalf("HARNESS-ERROR cannot decode %s: %v", path, err)
	}
	res := o.Safe(&c)
	for _, k := range res.Known {
		fmt.Printf("REPLAY-KNOWN property=%s finding=%s\n", env.Property, k)
	}
	if res.Fail != "" {
		fmt.Printf("REPLAY-FAIL property=%s replay=%s: %s\n", env.Property, path, res.Fail)
		t.Fatalf("replayed case fails: %s", res.Fail)
	}
	fmt.Printf("REPLAY-PASS property=%s replay=%s\n", env.Property, path)
}
