package kit

import (
	"math"

	"pgregory.net/rapid"
)

// GenChannels draws a channel count >= 1: mostly 1..8, sometimes up to 64, rarely 65..140 or around 256 and 512.
func GenChannels(t *rapid.T) int {
	if Chance(t, "chanHuge", 1, 60) { // more channels than a machine word has bits
		return rapid.IntRange(65, 140).Draw(t, "channelsHuge")
	}
	if Chance(t, "chanByte", 1, 80) { // around the range of a byte
		return rapid.SampledFrom([]int{255, 256, 257, 511, 512, 513}).Draw(t, "channelsByte")
	}
	if rapid.IntRange(0, 19).Draw(t, "chanSel") == 0 {
		return rapid.IntRange(9, 64).Draw(t, "channelsBig")
	}
	return rapid.IntRange(1, 8).Draw(t, "channels")
}

// GenFrames draws a frame count: mostly 0..48, sometimes up to maxBig.
func GenFrames(t *rapid.T, label string, maxBig int) int {
	if maxBig > 48 && rapid.IntRange(0, 29).Draw(t, label+"Sel") == 0 {
		return rapid.IntRange(49, maxBig).Draw(t, label+"Big")
	}
	return rapid.IntRange(0, 48).Draw(t, label)
}

// GenWindow draws a root size Kr and a window [a,b) with 0 <= a <= b <= Kr.
// Whole-root, empty, offset and spare-capacity windows all occur.
func GenWindow(t *rapid.T, label string, maxBig int) (kr, a, b int) {
	kr = GenFrames(t, label+"Kr", maxBig)
	switch rapid.IntRange(0, 5).Draw(t, label+"WinSel") {
	case 0: // whole root
		return kr, 0, kr
	case 1: // from the start with spare capacity
		return kr, 0, rapid.IntRange(0, kr).Draw(t, label+"B")
	default:
		a = rapid.IntRange(0, kr).Draw(t, label+"A")
		b = rapid.IntRange(a, kr).Draw(t, label+"B")
		return kr, a, b
	}
}

// GenFix draws a fixture construction order for RootWindow: the three plain
// orders, or (one case in four) the two-piece order 4+s with s in 0..2C.
func GenFix(t *rapid.T, label string, C int) int {
	if rapid.IntRange(0, 3).Draw(t, label+"Pieces") == 0 {
		return 4 + rapid.IntRange(0, 2*C).Draw(t, label+"FirstPiece")
	}
	return rapid.IntRange(0, 2).Draw(t, label)
}

// GenLenRel draws a length relative to n: 0, shorter, equal, longer by one,
// longer by many.
func GenLenRel(t *rapid.T, label string, n int) int {
	switch rapid.IntRange(0, 5).Draw(t, label+"Rel") {
	case 0:
		return 0
	case 1:
		if n == 0 {
			return 0
		}
		return rapid.IntRange(0, n-1).Draw(t, label+"Short")
	case 2, 3:
		return n
	case 4:
		return n + 1
	default:
		return n + rapid.IntRange(2, 40).Draw(t, label+"Long")
	}
}

// commonIntRange returns the inclusive integer range representable exactly in
// both types (either may be a float type, which limits the magnitude).
func commonIntRange(a, b TypeInfo) (lo int64, hi uint64) {
	lo, hi = math.MinInt64, math.MaxUint64
	for _, ti := range []TypeInfo{a, b} {
		var l int64
		var h uint64
		if ti.Kind == Float {
			if ti.Bits == 32 {
				l, h = -(1 << 24), 1<<24
			} else {
				l, h = -(1 << 53), 1<<53
			}
		} else {
			l, h = IntRange(ti)
		}
		if l > lo {
			lo = l
		}
		if h < hi {
			hi = h
		}
	}
	return
}

// GenCommonVal draws a value exactly representable in both element types.
func GenCommonVal(t *rapid.T, a, b TypeInfo) Val {
	if a.Kind == Float && b.Kind == Float && rapid.IntRange(0, 2).Draw(t, "fsel") == 0 {
		// any float32 value is representable in both float types
		switch rapid.IntRange(0, 7).Draw(t, "fkind") {
		case 0:
			return FV(math.Inf(1))
		case 1:
			return FV(math.Inf(-1))
		case 2:
			return FV(math.Copysign(0, -1))
		case 3:
			return FV(float64(math.MaxFloat32))
		case 4:
			return FV(float64(math.SmallestNonzeroFloat32))
		default:
			bits := rapid.Uint32().Draw(t, "f32bits")
			f := math.Float32frombits(bits)
			if f != f {
				f = 0.25
			}
			return FV(float64(f))
		}
	}
	if (a.Kind == Float) != (b.Kind == Float) && rapid.IntRange(0, 3).Draw(t, "bigSel") == 0 {
		// float <-> integer pair: integers far beyond 2^24 / 2^53 are representable in
		// both types when their mantissa is short: m * 2^shift with m below the
		// float's precision, inside the integer type's range.
		ft, it := a, b
		if b.Kind == Float {
			ft, it = b, a
		}
		prec := 53
		if ft.Bits == 32 {
			prec = 24
		}
		ilo, ihi := IntRange(it)
		top := it.Bits // value bits of the integer type
		if it.Kind == Signed {
			top--
		}
		mbits := rapid.IntRange(1, prec).Draw(t, "mantBits")
		m := rapid.Uint64Range(1<<(mbits-1), 1<<mbits-1).Draw(t, "mant")
		maxShift := top - mbits
		if maxShift < 0 {
			maxShift = 0
			m >>= uint(mbits - top)
			if m == 0 {
				m = 1
			}
		}
		shift := maxShift - rapid.IntRange(0, kitMin(maxShift, 3)).Draw(t, "shiftBelowTop")
		u := m << uint(shift)
		if u > ihi { // cannot happen (m < 2^mbits, shift <= top-mbits); stay representable if it ever does
			u = uint64(1) << uint(top-1)
		}
		if it.Kind == Signed {
			if rapid.Bool().Draw(t, "negBig") {
				if v := -int64(u); v >= ilo {
					return IV(v)
				}
			}
			return IV(int64(u))
		}
		return UV(u)
	}
	lo, hi := commonIntRange(a, b)
	if hi > math.MaxInt64 {
		// both unsigned 64-bit
		switch rapid.IntRange(0, 3).Draw(t, "usel") {
		case 0:
			return UV(hi - uint64(rapid.IntRange(0, 3).Draw(t, "uoff")))
		case 1:
			return UV(uint64(rapid.IntRange(0, 200).Draw(t, "usmall")))
		default:
			return UV(rapid.Uint64().Draw(t, "u64"))
		}
	}
	h := int64(hi)
	switch rapid.IntRange(0, 5).Draw(t, "isel") {
	case 0:
		return IV(h - int64(rapid.IntRange(0, 2).Draw(t, "hoff")))
	case 1:
		return IV(lo + int64(rapid.IntRange(0, 2).Draw(t, "loff")))
	case 2:
		v := int64(rapid.IntRange(-3, 130).Draw(t, "small"))
		if v < lo {
			v = lo
		}
		if v > h {
			v = h
		}
		return IV(v)
	default:
		return IV(rapid.Int64Range(lo, h).Draw(t, "ival"))
	}
}

// GenCommonVals draws n values.
func GenCommonVals(t *rapid.T, a, b TypeInfo, n int) []Val {
	out := make([]Val, n)
	for i := range out {
		out[i] = GenCommonVal(t, a, b)
	}
	return out
}

func kitMin(a, b int) int {
	if a < b {
		return a
	}
	return b
}

// Chance is true with probability of about num/den. rapid's bounded integer
// generators are deliberately biased towards small values and the bounds
// (measured: IntRange(0,2999) == 0 in 9% of the draws), so rare events are drawn
// from the residue of a full-width value instead.
func Chance(t *rapid.T, label string, num, den uint64) bool {
	// small values (and hence small residues) are favoured as well, so the
	// accepted residues sit in the middle of the range
	r := rapid.Uint64().Draw(t, label) % den
	return r >= den/2 && r < den/2+num
}
