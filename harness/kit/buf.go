package kit

import (
	"fmt"
	"reflect"

	"pipelined.dev/signal"
)

// Sentinel is the non-zero fill value of root storage position p (fits every
// element type, so zero-fill and misplaced writes are both visible).
func Sentinel(p int) int64 { return 1 + int64(p%50) }

// OutSentinel is the fill value of caller-side slice element k.
func OutSentinel(k int) int64 { return 60 + int64(k%60) }

// Root allocates a root buffer with C channels and K frames of length and
// capacity and fills every position with its sentinel.
func Root[T signal.SignalTypes](C, K int) *signal.Buffer[T] {
	r := signal.Alloc[T](signal.Allocator{Channels: C, Length: K, Capacity: K})
	for p := 0; p < C*K; p++ {
		r.SetSample(p, T(Sentinel(p)))
	}
	return r
}

// RootPooled is Root with the buffer taken from a pool allocator, after one round trip of a
// buffer through that pool: where a buffer came from must not change how it behaves.
func RootPooled[T signal.SignalTypes](C, K int) *signal.Buffer[T] {
	pool := signal.PoolAlloc[T](signal.Allocator{Channels: C, Length: K, Capacity: K})
	first := pool.Get()
	first.AppendSample(1)
	pool.Put(first)
	b := pool.Get()
	for i := 0; i < b.Len(); i++ {
		b.SetSample(i, T(Sentinel(i)))
	}
	return b
}

// RootModel is the plain-slice model of Root's storage.
func RootModel[T signal.SignalTypes](C, K int) []T {
	m := make([]T, C*K)
	for p := range m {
		m[p] = T(Sentinel(p))
	}
	return m
}

// Snap reads every position of a root (length == capacity) buffer.
func Snap[T signal.SignalTypes](root *signal.Buffer[T]) []T {
	out := make([]T, root.Len())
	for i := range out {
		out[i] = root.Sample(i)
	}
	return out
}

// Hdr is everything a buffer header reports.
type Hdr struct {
	Len, Cap, Length, Capacity, Channels, BitDepth int
}

func HdrOf[T signal.SignalTypes](b *signal.Buffer[T]) Hdr {
	return Hdr{b.Len(), b.Cap(), b.Length(), b.Capacity(), b.Channels(), int(b.BitDepth())}
}

// RawLenCap reads the length and capacity of the buffer's sample storage
// directly (by reflection on the unexported slice field), without going through
// the library's own accessors. ok is false when the storage cannot be found
// (the layout of Buffer changed); callers then fall back on the accessors.
// Checks whose property speaks of total length or capacity use it so that an
// accessor that misreports cannot vouch for itself.
func RawLenCap(buf any) (l, c int, ok bool) {
	v := reflect.ValueOf(buf)
	if v.Kind() != reflect.Pointer || v.IsNil() || v.Elem().Kind() != reflect.Struct {
		return 0, 0, false
	}
	st := v.Elem()
	found := -1
	for i := 0; i < st.NumField(); i++ {
		if st.Field(i).Kind() == reflect.Slice {
			if found >= 0 {
				return 0, 0, false // more than one slice field: ambiguous
			}
			found = i
		}
	}
	if found < 0 {
		return 0, 0, false
	}
	f := st.Field(found)
	return f.Len(), f.Cap(), true
}

// RawMismatch compares Len() and Cap() as reported with the storage itself; ""
// when they agree or the storage cannot be inspected.
func RawMismatch(buf any, h Hdr) string {
	l, c, ok := RawLenCap(buf)
	if !ok || (l == h.Len && c == h.Cap) {
		return ""
	}
	return fmt.Sprintf("Len()/Cap() report %d/%d, the sample storage has length %d and capacity %d", h.Len, h.Cap, l, c)
}

// ModelHdr is the header a window of n samples / k capacity samples over C
// channels must report (C >= 1).
func ModelHdr(C, n, k, bits int) Hdr {
	return Hdr{Len: n, Cap: k, Length: (n + C - 1) / C, Capacity: k / C, Channels: C, BitDepth: bits}
}

// Try runs f and reports whether it panicked.
func Try(f func()) (panicked bool, val any) {
	defer func() {
		if r := recover(); r != nil {
			panicked, val = true, r
		}
	}()
	f()
	return
}

// DiffSlice describes the first difference between got and want ("" if none).
func DiffSlice[T signal.SignalTypes](what string, got, want []T) string {
	if len(got) != len(want) {
		return fmt.Sprintf("%s: length %d, want %d", what, len(got), len(want))
	}
	for i := range got {
		if !Same(got[i], want[i]) {
			return fmt.Sprintf("%s: position %d holds %s, want %s", what, i, Str(got[i]), Str(want[i]))
		}
	}
	return ""
}

// Window builds W = root.Slice(a,b) followed by `partial` single-sample
// appends of value pv(k); it returns the view. The model effect of the appends
// (positions C*b .. C*b+partial-1 of the root become pv(k)) is the caller's to
// apply with ApplyPartial.
func Window[T signal.SignalTypes](root *signal.Buffer[T], a, b, partial int) *signal.Buffer[T] {
	w := root.Slice(a, b)
	for k := 0; k < partial; k++ {
		w.AppendSample(T(PartialVal(k)))
	}
	return w
}

// PartialVal is the value appended as k-th sample of a partial last frame.
func PartialVal(k int) int64 { return 51 + int64(k%9) }

func ApplyPartial[T signal.SignalTypes](model []T, C, b, partial int) {
	for k := 0; k < partial; k++ {
		model[C*b+k] = T(PartialVal(k))
	}
}

// CeilDiv is ceil(n/c) for n >= 0, c >= 1.
func CeilDiv(n, c int) int { return (n + c - 1) / c }

func Min(a, b int) int {
	if a < b {
		return a
	}
	return b
}

func Max(a, b int) int {
	if a > b {
		return a
	}
	return b
}

// RootWindow builds a sentinel-filled root and the window W = root.Slice(a,b)
// (+ partial appended samples) in one of several construction orders, so that
// header-local state (anything a header might cache about "its" storage) is
// exercised in stale as well as fresh condition:
//
//	fix 0: the root is filled through its own header, then the window is sliced
//	fix 1: the window is sliced from the freshly allocated root first, then the
//	       root is filled through the root header (the window header has never
//	       been written through)
//	fix 2: the root is filled through an alias root.Slice(0,K); the root header
//	       itself is never written through; the window is sliced from it afterwards
//	fix 4+s: as fix 0, but the window starts as the empty root.Slice(a,a) and gets
//	       its content (the same values) in two pieces: s single samples, then an
//	       in-place Append of a separately allocated buffer holding the rest, so
//	       that both pieces may end in a partial frame (s is clipped to 1..n-1;
//	       windows with fewer than two samples are built as fix 0)
func RootWindow[T signal.SignalTypes](C, K, a, b, partial, fix int) (root, w *signal.Buffer[T]) {
	root = signal.Alloc[T](signal.Allocator{Channels: C, Length: K, Capacity: K})
	fillVia := root
	switch fix {
	case 1:
		w = root.Slice(a, b)
	case 2:
		fillVia = root.Slice(0, K)
	case 3:
		// as 2; and when the window is the whole root, the never-written root header
		// itself is the "window" (callers must then fill through an alias as well)
		fillVia = root.Slice(0, K)
		if a == 0 && b == K && partial == 0 {
			w = root
		}
	}
	for p := 0; p < C*K; p++ {
		fillVia.SetSample(p, T(Sentinel(p)))
	}
	defer func() {
		// other windows of the same parent are cut while the window under test is alive:
		// every Slice call must hand out a header of its own
		_ = root.Slice(0, K/2)
		_ = root.Slice(K/2, K)
		_ = root.Slice(K, K)
	}()
	if n := C*(b-a) + partial; fix >= 4 && n >= 2 {
		n1 := fix - 3
		if n1 > n-1 {
			n1 = n - 1
		}
		val := func(q int) T {
			if q < C*(b-a) {
				return T(Sentinel(C*a + q))
			}
			return T(PartialVal(q - C*(b-a)))
		}
		w = root.Slice(a, a)
		for q := 0; q < n1; q++ {
			w.AppendSample(val(q))
		}
		rest := signal.Alloc[T](signal.Allocator{Channels: C, Length: 0, Capacity: (n-n1)/C + 1})
		for q := n1; q < n; q++ {
			rest.AppendSample(val(q))
		}
		w.Append(rest)
		return root, w
	}
	if w == nil {
		w = root.Slice(a, b)
	}
	for k := 0; k < partial; k++ {
		w.AppendSample(T(PartialVal(k)))
	}
	return root, w
}
