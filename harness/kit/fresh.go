package kit

import (
	"bufio"
	"bytes"
	"encoding/json"
	"fmt"
	"os"
	"os/exec"
	"strings"
	"testing"
)

// Fresh-process mode. State that lives for the whole process (a table filled on
// first use, a sync.Once, a memoised constant) makes a result depend on which
// library call came first in the process, and cannot be reset from inside. A
// case can therefore be evaluated in a freshly started copy of the test binary,
// where the operations of the case are the first library calls: Oracle.Fresh
// re-executes the binary with the case in the environment, the child
// (TestFreshChild -> Oracle.FreshChild) runs the ordinary oracle on it and
// prints the verdict, which the parent returns as its own.

const (
	freshEnv  = "VERIF_FRESH_CASE"
	freshMark = "FRESH-RESULT "
)

// FreshChild runs the oracle on the case handed over by a parent; false when
// this process is not a fresh-process child.
func (o Oracle[C]) FreshChild(t *testing.T) bool {
	spec := os.Getenv(freshEnv)
	if spec == "" {
		return false
	}
	var c C
	if err := json.Unmarshal([]byte(spec), &c); err != nil {
		fmt.Println("HARNESS-ERROR bad fresh-process case:", err)
		os.Exit(3)
	}
	res := o.Safe(&c)
	b, _ := json.Marshal(res)
	fmt.Println(freshMark + string(b))
	return true
}

// Fresh evaluates c in a fresh process and returns the child's verdict.
func (o Oracle[C]) Fresh(c *C) Result { return FreshRun(c) }

// FreshRun is Fresh for callers that cannot name their own Oracle (an oracle's
// Check function refers to it while the Oracle variable is being initialised).
func FreshRun(c any) Result {
	exe, err := os.Executable()
	if err != nil {
		freshDie("fresh-process child: %v", err)
	}
	spec, _ := json.Marshal(c)
	cmd := exec.Command(exe, "-test.run=^TestFreshChild$", "-test.count=1", "-test.timeout=300s")
	cmd.Env = append(os.Environ(), freshEnv+"="+string(spec), "VERIF_OUT=")
	out, err := cmd.CombinedOutput()
	sc := bufio.NewScanner(bytes.NewReader(out))
	sc.Buffer(make([]byte, 1<<20), 1<<26)
	for sc.Scan() {
		if l := sc.Text(); strings.HasPrefix(l, freshMark) {
			var r Result
			if json.Unmarshal([]byte(l[len(freshMark):]), &r) == nil {
				if r.Fail != "" {
					r.Fail += " (evaluated in a fresh process: the case's operations were the first library calls)"
				}
				r.Class("evaluatedInAFreshProcess")
				return r
			}
		}
	}
	tail := string(out)
	if len(tail) > 600 {
		tail = tail[len(tail)-600:]
	}
	freshDie("fresh-process child gave no verdict (%v): %s", err, tail)
	return Result{}
}

// A child that cannot be started or dies without a verdict is a harness error
// (the job ends with exit 3 = inconclusive), never a violation.
func freshDie(format string, a ...any) {
	fmt.Fprintf(os.Stderr, "HARNESS-ERROR "+format+"\n", a...)
	os.Exit(3)
}
