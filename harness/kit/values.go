package kit

import (
	"math"
	"sort"

	"pgregory.net/rapid"
)

// BoundaryAmps returns the boundary-dense amplitudes of a d-bit fixed-point
// format: bounds, 0, +-1, +-2^k + {-3..3}, +-1.5*2^k + {-3..3}, clipped to the
// format's amplitude range [-2^(d-1), 2^(d-1)-1], sorted and de-duplicated.
func BoundaryAmps(d int) []int64 {
	lo, hi := int64(-1)<<(d-1), int64(1)<<(d-1)-1
	set := map[int64]struct{}{}
	add := func(v int64) {
		if v >= lo && v <= hi {
			set[v] = struct{}{}
		}
	}
	for off := int64(-3); off <= 3; off++ {
		add(off)
		add(lo + 3 + off) // lo .. lo+6
		add(hi - 3 + off) // hi-6 .. hi
		for k := 0; k < d-1 && k < 63; k++ {
			p := int64(1) << k
			add(p + off)
			add(-p + off)
			if k >= 1 {
				add(p + p/2 + off)
				add(-(p + p/2) + off)
			}
		}
	}
	out := make([]int64, 0, len(set))
	for v := range set {
		out = append(out, v)
	}
	sort.Slice(out, func(i, j int) bool { return out[i] < out[j] })
	return out
}

// GenAmp draws an amplitude of a d-bit format: boundary-dense or uniform bits.
func GenAmp(t *rapid.T, d int, bounds []int64) int64 {
	lo, hi := int64(-1)<<(d-1), int64(1)<<(d-1)-1
	switch rapid.IntRange(0, 3).Draw(t, "ampSel") {
	case 0:
		return rapid.SampledFrom(bounds).Draw(t, "ampBound")
	case 1:
		return rapid.Int64Range(lo, hi).Draw(t, "amp")
	default:
		// uniform bit pattern, sign-extended to d bits
		u := rapid.Uint64().Draw(t, "ampBits")
		return int64(u<<(64-d)) >> (64 - d)
	}
}

func nextN(x float64, n int, up bool) float64 {
	dir := math.Inf(-1)
	if up {
		dir = math.Inf(1)
	}
	for i := 0; i < n; i++ {
		x = math.Nextafter(x, dir)
	}
	return x
}

func next32N(x float32, n int, up bool) float32 {
	dir := float32(math.Inf(-1))
	if up {
		dir = float32(math.Inf(1))
	}
	for i := 0; i < n; i++ {
		x = math.Nextafter32(x, dir)
	}
	return x
}

// BoundaryFloats returns the boundary-dense floating inputs (no NaN), as exact
// float64 values; for is32 every returned value is a float32.
func BoundaryFloats(is32 bool) []float64 {
	set := map[uint64]float64{}
	add := func(f float64) {
		if is32 {
			f = float64(float32(f))
		}
		if f != f {
			return
		}
		set[math.Float64bits(f)] = f
	}
	near := func(f float64) {
		add(f)
		add(-f)
		for n := 1; n <= 3; n++ {
			if is32 {
				add(float64(next32N(float32(f), n, true)))
				add(float64(next32N(float32(f), n, false)))
				add(-float64(next32N(float32(f), n, true)))
				add(-float64(next32N(float32(f), n, false)))
			} else {
				add(nextN(f, n, true))
				add(nextN(f, n, false))
				add(-nextN(f, n, true))
				add(-nextN(f, n, false))
			}
		}
	}
	near(0)
	for k := -70; k <= 70; k++ {
		near(math.Ldexp(1, k))
		near(math.Ldexp(1.5, k))
	}
	for _, base := range []float64{256, 65536, 1 << 31, 1 << 32, 1 << 63, 1 << 64} {
		for n := -3; n <= 3; n++ {
			add(base + float64(n))
			add(-(base + float64(n)))
			add(base + float64(n) + 0.5)
			add(-(base + float64(n) + 0.5))
			add(base * float64(n))
		}
		near(base)
	}
	for _, f := range []float64{0.5, 0.25, 0.75, 0.1, 0.9, 0.99, 0.999999, 1.5, 2, 3, 127.0 / 128, 1.0 / 127, 1.0 / 128, 1.0 / 32767, 1.0 / 32768, 1e-10, 1e10, 1e30} {
		near(f)
	}
	if is32 {
		near(math.MaxFloat32)
		near(math.SmallestNonzeroFloat32)
		near(float64(math.Float32frombits(0x00800000))) // smallest normal
	} else {
		near(math.MaxFloat64)
		near(math.SmallestNonzeroFloat64)
		near(math.Float64frombits(0x0010000000000000))
		near(math.MaxFloat32)
	}
	add(math.Inf(1))
	add(math.Inf(-1))
	add(math.Copysign(0, -1))
	out := make([]float64, 0, len(set))
	for _, v := range set {
		out = append(out, v)
	}
	// -0 before +0: the two compare equal, and the order must not depend on map iteration
	sort.Slice(out, func(i, j int) bool {
		return out[i] < out[j] || (out[i] == out[j] && math.Signbit(out[i]) && !math.Signbit(out[j]))
	})
	return out
}

// GenFloat draws a floating input (exact float32 when is32): boundary set,
// uniform bit pattern, uniform in [-1.5,1.5], or log-uniform magnitude.
func GenFloat(t *rapid.T, is32 bool, bounds []float64, allowNaN bool) float64 {
	var f float64
	switch rapid.IntRange(0, 4).Draw(t, "fSel") {
	case 0:
		f = rapid.SampledFrom(bounds).Draw(t, "fBound")
	case 1:
		if is32 {
			f = float64(math.Float32frombits(rapid.Uint32().Draw(t, "f32bits")))
		} else {
			f = math.Float64frombits(rapid.Uint64().Draw(t, "f64bits"))
		}
	case 2:
		f = rapid.Float64Range(-1.5, 1.5).Draw(t, "fUnit")
	case 3:
		e := rapid.IntRange(-80, 80).Draw(t, "fExp")
		m := rapid.Float64Range(1, 2).Draw(t, "fMant")
		f = math.Ldexp(m, e)
		if rapid.Bool().Draw(t, "fNeg") {
			f = -f
		}
	default:
		// close to a quantisation boundary of some depth: k/2^j
		j := rapid.IntRange(1, 40).Draw(t, "qDepth")
		k := rapid.Int64Range(-(1<<uint(j))-2, (1<<uint(j))+2).Draw(t, "qNum")
		f = float64(k) / math.Ldexp(1, j)
		f = nextN(f, rapid.IntRange(0, 2).Draw(t, "qUlps"), rapid.Bool().Draw(t, "qUp"))
	}
	if is32 {
		f = float64(float32(f))
	}
	if f != f {
		if allowNaN {
			return f
		}
		return 0.5
	}
	return f
}

// PadInts repeats vs cyclically up to n elements (n <= len(vs): unchanged copy).
// Numeric cases use it to embed their values in a long buffer, so that code
// paths gated on the buffer length (lookup tables, block/SIMD kernels) are
// reached with the same values.
func PadInts(vs []int64, n int) []int64 {
	out := append([]int64(nil), vs...)
	for i := 0; len(out) < n && len(vs) > 0; i++ {
		out = append(out, vs[i%len(vs)])
	}
	return out
}

// PadFloats is PadInts for float64 values.
func PadFloats(vs []float64, n int) []float64 {
	out := append([]float64(nil), vs...)
	for i := 0; len(out) < n && len(vs) > 0; i++ {
		out = append(out, vs[i%len(vs)])
	}
	return out
}

// GenPad draws a padded buffer length: mostly 0 (no padding), otherwise a
// length around typical block thresholds.
func GenPad(t *rapid.T) int {
	if Chance(t, "padHuge", 1, 400) { // beyond 65536 samples, not a multiple of 4
		return rapid.SampledFrom([]int{65537, 65538, 65539, 70001, 131073, 150001}).Draw(t, "padHugeLen")
	}
	if rapid.IntRange(0, 3).Draw(t, "padSel") != 0 {
		return 0
	}
	return rapid.SampledFrom([]int{63, 64, 65, 255, 256, 257, 1023, 1024, 1025, 2048, 4096, 4097, 10001}).Draw(t, "pad")
}

// GenNumCh draws the channel count of a numeric-kernel case: mostly few
// channels, sometimes 9..64, and for the very long buffers a mix of both (a
// conversion may treat "long and wide" differently from either alone).
func GenNumCh(t *rapid.T, pad int) int {
	if pad > 30000 {
		return rapid.SampledFrom([]int{1, 2, 7, 9, 12, 33, 64}).Draw(t, "chLong")
	}
	if rapid.IntRange(0, 7).Draw(t, "chWideSel") == 0 {
		return rapid.IntRange(9, 64).Draw(t, "chWide")
	}
	return rapid.SampledFrom([]int{1, 1, 2, 3, 5, 8}).Draw(t, "ch")
}
