package kit

import (
	"encoding/binary"
	"encoding/json"
	"fmt"
	"os"
	"path/filepath"
	"sort"
	"strconv"
	"sync"
	"time"
)

// Result is what a property oracle returns for one case.
type Result struct {
	Fail    string   // non-empty: the property is violated, with the reason
	Known   []string // ids of known findings this case ran into (excluded from failing)
	Classes []string // non-triviality classes of the case; empty = trivial
}

func (r *Result) Failf(format string, a ...any) {
	if r.Fail == "" {
		r.Fail = fmt.Sprintf(format, a...)
	}
}

func (r *Result) Class(c string) {
	for _, x := range r.Classes {
		if x == c {
			return
		}
	}
	r.Classes = append(r.Classes, c)
}

func (r *Result) KnownHit(id string) {
	for _, x := range r.Known {
		if x == id {
			return
		}
	}
	r.Known = append(r.Known, id)
}

// TB is the part of testing.TB / rapid.T the kit needs.
type TB interface {
	Fatalf(format string, args ...any)
	Logf(format string, args ...any)
}

// Env is the run configuration handed over by the driver.
type Env struct {
	Property  string
	Tier      string // quick | thorough
	Seed      int64  // VERIF_SEED
	Shard     int
	Shards    int
	Out       string // stats file to write
	ReplayDir string
	Known     string // known_findings.json
	Regress   string // regress/<id> directory
}

func GetEnv(property string) Env {
	e := Env{Property: property, Tier: os.Getenv("VERIF_TIER"), Seed: 1, Shards: 1}
	if e.Tier == "" {
		e.Tier = "quick"
	}
	if v, err := strconv.ParseInt(os.Getenv("VERIF_SEED"), 10, 64); err == nil {
		e.Seed = v
	}
	if v, err := strconv.Atoi(os.Getenv("VERIF_SHARD")); err == nil {
		e.Shard = v
	}
	if v, err := strconv.Atoi(os.Getenv("VERIF_SHARDS")); err == nil && v > 0 {
		e.Shards = v
	}
	e.Out = os.Getenv("VERIF_OUT")
	e.ReplayDir = os.Getenv("VERIF_REPLAY_DIR")
	if e.ReplayDir == "" {
		e.ReplayDir = filepath.Join(os.TempDir(), "verif-replays", property)
	}
	e.Known = os.Getenv("VERIF_KNOWN")
	if e.Known == "" {
		e.Known = "/verif/known_findings.json"
	}
	e.Regress = os.Getenv("VERIF_REGRESS")
	if e.Regress == "" {
		e.Regress = filepath.Join("/verif/regress", property)
	}
	return e
}

func (e Env) Thorough() bool { return e.Tier == "thorough" }

// Pick returns q in the quick tier and th in the thorough tier.
func (e Env) Pick(q, th int) int {
	if e.Thorough() {
		return th
	}
	return q
}

// ---------------------------------------------------------------------------
// Known findings

type KnownEntry struct {
	Property string `json:"property"`
	Status   string `json:"status"` // known | fixed
	ID       string `json:"id"`
	Where    string `json:"where"`
	Match    string `json:"match"`
	What     string `json:"what"`
	Commit   string `json:"commit,omitempty"`
}

var (
	knownOnce sync.Once
	knownSet  map[string]bool
)

// KnownActive reports whether the committed known-findings file lists id for
// property with status "known". The structural predicate that recognises the
// finding lives in the oracle; the file only switches it on, so a failure that
// the predicate does not recognise is always a violation.
func KnownActive(e Env, id string) bool {
	knownOnce.Do(func() {
		knownSet = map[string]bool{}
		b, err := os.ReadFile(e.Known)
		if err != nil {
			return
		}
		var f struct {
			Findings []KnownEntry `json:"findings"`
		}
		if json.Unmarshal(b, &f) != nil {
			return
		}
		for _, k := range f.Findings {
			if k.Status == "known" {
				knownSet[k.Property+"/"+k.ID] = true
			}
		}
	})
	return knownSet[e.Property+"/"+id]
}

// ---------------------------------------------------------------------------
// Recorder

type sample struct {
	fp   uint64
	json json.RawMessage
}

// Recorder accumulates what a test process explored. Safe for concurrent use.
type Recorder struct {
	Env    Env
	Engine string
	start  time.Time

	mu         sync.Mutex
	evals      int64
	nontrivial int64
	classes    map[string]int64
	fps        map[uint64]struct{}
	bulkNT     int64 // distinct non-trivial points counted by complete enumerations
	first      []json.RawMessage
	keep       []sample // samples with the smallest fingerprints (deterministic reservoir)
	known      map[string]int64
	knownEx    map[string]json.RawMessage
	exhaustive map[string]bool
	notes      map[string]any
	requested  int64
}

func NewRecorder(e Env, engine string) *Recorder {
	return &Recorder{Env: e, Engine: engine, start: time.Now(),
		classes: map[string]int64{}, fps: map[uint64]struct{}{},
		known: map[string]int64{}, knownEx: map[string]json.RawMessage{},
		exhaustive: map[string]bool{}, notes: map[string]any{}}
}

const (
	nFirst = 3
	nKeep  = 5
)

// Case records one evaluated case. c is marshalled only if it is chosen as a
// sample.
func (r *Recorder) Case(c any, res *Result, fp uint64) {
	r.mu.Lock()
	defer r.mu.Unlock()
	r.evals++
	for _, k := range res.Known {
		r.known[k]++
		if _, ok := r.knownEx[k]; !ok {
			r.knownEx[k] = mustJSON(c)
		}
	}
	if len(res.Classes) == 0 {
		return
	}
	r.nontrivial++
	for _, cl := range res.Classes {
		r.classes[cl]++
	}
	if _, seen := r.fps[fp]; seen {
		return
	}
	r.fps[fp] = struct{}{}
	if len(r.first) < nFirst {
		r.first = append(r.first, mustJSON(c))
		return
	}
	if len(r.keep) < nKeep {
		r.keep = append(r.keep, sample{fp, mustJSON(c)})
		sort.Slice(r.keep, func(i, j int) bool { return r.keep[i].fp < r.keep[j].fp })
		return
	}
	if fp < r.keep[nKeep-1].fp {
		r.keep[nKeep-1] = sample{fp, mustJSON(c)}
		sort.Slice(r.keep, func(i, j int) bool { return r.keep[i].fp < r.keep[j].fp })
	}
}

// Bulk records a block of a complete enumeration: evals points evaluated, of
// which nontrivial are non-trivial; enumerated points are distinct by
// construction.
func (r *Recorder) Bulk(class string, evals, nontrivial int64) {
	r.mu.Lock()
	defer r.mu.Unlock()
	r.evals += evals
	r.nontrivial += nontrivial
	r.bulkNT += nontrivial
	if class != "" {
		r.classes[class] += nontrivial
	}
}

// Sample adds an explicit sample (used by sweeps, which do not marshal every point).
func (r *Recorder) Sample(c any) {
	r.mu.Lock()
	defer r.mu.Unlock()
	if len(r.first) < nFirst+nKeep {
		r.first = append(r.first, mustJSON(c))
	}
}

func (r *Recorder) KnownBulk(id string, n int64, example any) {
	r.mu.Lock()
	defer r.mu.Unlock()
	r.known[id] += n
	if _, ok := r.knownEx[id]; !ok && example != nil {
		r.knownEx[id] = mustJSON(example)
	}
}

func (r *Recorder) Exhaustive(domain string, complete bool) {
	r.mu.Lock()
	defer r.mu.Unlock()
	r.exhaustive[domain] = complete
}

func (r *Recorder) Note(key string, v any) {
	r.mu.Lock()
	defer r.mu.Unlock()
	r.notes[key] = v
}

func (r *Recorder) Requested(n int64) {
	r.mu.Lock()
	defer r.mu.Unlock()
	r.requested += n
}

func (r *Recorder) Evals() int64 {
	r.mu.Lock()
	defer r.mu.Unlock()
	return r.evals
}

type statsFile struct {
	Property    string                     `json:"property"`
	Engine      string                     `json:"engine"`
	Tier        string                     `json:"tier"`
	Seed        int64                      `json:"seed"`
	Shard       int                        `json:"shard"`
	Evaluations int64                      `json:"evaluations"`
	Requested   int64                      `json:"requested"`
	Nontrivial  int64                      `json:"nontrivial"`
	BulkNT      int64                      `json:"bulk_distinct_nontrivial"`
	FpCount     int                        `json:"fingerprints"`
	FpFile      string                     `json:"fp_file"`
	Classes     map[string]int64           `json:"classes"`
	Samples     []json.RawMessage          `json:"samples"`
	Known       map[string]int64           `json:"known"`
	KnownEx     map[string]json.RawMessage `json:"known_examples"`
	Exhaustive  map[string]bool            `json:"exhaustive"`
	Notes       map[string]any             `json:"notes"`
	WallS       float64                    `json:"wall_s"`
	Complete    bool                       `json:"complete"`
}

// Flush writes the statistics for the driver. complete=false marks a run that
// stopped early (failure).
func (r *Recorder) Flush(complete bool) {
	r.mu.Lock()
	defer r.mu.Unlock()
	if r.Env.Out == "" {
		return
	}
	out := r.Env.Out + "." + r.Engine + ".json"
	sf := statsFile{Property: r.Env.Property, Engine: r.Engine, Tier: r.Env.Tier, Seed: r.Env.Seed,
		Shard: r.Env.Shard, Evaluations: r.evals, Requested: r.requested, Nontrivial: r.nontrivial,
		BulkNT: r.bulkNT, FpCount: len(r.fps), Classes: r.classes, Known: r.known, KnownEx: r.knownEx,
		Exhaustive: r.exhaustive, Notes: r.notes, WallS: time.Since(r.start).Seconds(), Complete: complete}
	sf.Samples = append(sf.Samples, r.first...)
	for _, s := range r.keep {
		sf.Samples = append(sf.Samples, s.json)
	}
	_ = os.MkdirAll(filepath.Dir(out), 0o755)
	if len(r.fps) > 0 {
		sf.FpFile = out + ".fps"
		buf := make([]byte, 0, 8*len(r.fps))
		for fp := range r.fps {
			buf = binary.LittleEndian.AppendUint64(buf, fp)
		}
		_ = os.WriteFile(sf.FpFile, buf, 0o644)
	}
	b, _ := json.MarshalIndent(sf, "", " ")
	_ = os.MkdirAll(filepath.Dir(out), 0o755)
	_ = os.WriteFile(out, b, 0o644)
}

func mustJSON(c any) json.RawMessage {
	b, err := json.Marshal(c)
	if err != nil {
		b, _ = json.Marshal(fmt.Sprintf("%+v", c))
	}
	return b
}

// ---------------------------------------------------------------------------
// Replay files

// Replay is the on-disk form of a failing (or regression) case.
type Replay struct {
	Property string          `json:"property"`
	Engine   string          `json:"engine"`
	Seed     int64           `json:"seed"`
	Message  string          `json:"message,omitempty"`
	Note     string          `json:"note,omitempty"`
	Case     json.RawMessage `json:"case"`
}

// WriteReplay stores the failing case; repeated failures of one engine/seed
// overwrite the same file, so after rapid's shrinking the file holds the
// minimal case (rapid re-runs the shrunk case last).
func WriteReplay(e Env, engine string, c any, msg string) string {
	_ = os.MkdirAll(e.ReplayDir, 0o755)
	name := fmt.Sprintf("%s-%s-seed%d-shard%d.json", e.Property, engine, e.Seed, e.Shard)
	path := filepath.Join(e.ReplayDir, name)
	rp := Replay{Property: e.Property, Engine: engine, Seed: e.Seed, Message: msg, Case: mustJSON(c)}
	b, _ := json.MarshalIndent(rp, "", " ")
	_ = os.WriteFile(path, b, 0o644)
	return path
}

// Fail writes the replay file and fails the test.
func Fail(t TB, e Env, engine string, c any, msg string) {
	path := WriteReplay(e, engine, c, msg)
	t.Fatalf("PROPERTY-FAIL property=%s replay=%s: %s", e.Property, path, msg)
}

// LoadReplay reads a replay / regression file.
func LoadReplay(path string) (Replay, error) {
	var rp Replay
	b, err := os.ReadFile(path)
	if err != nil {
		return rp, err
	}
	err = json.Unmarshal(b, &rp)
	return rp, err
}

// RegressFiles lists the committed regression cases of the property.
func RegressFiles(e Env) []string {
	m, _ := filepath.Glob(filepath.Join(e.Regress, "*.json"))
	sort.Strings(m)
	return m
}

// RapidSeed maps VERIF_SEED, a property index and a shard to a non-zero rapid seed.
func RapidSeed(seed int64, propIndex, shard int) uint64 {
	s := uint64(seed)*1000003 + 7919*uint64(propIndex) + uint64(shard)
	s %= 1 << 63
	return 1 + s
}

// Hasher is FNV-1a over ints and strings, for case fingerprints.
type Hasher uint64

func NewHasher() Hasher { return 14695981039346656037 }

func (h *Hasher) U64(v uint64) {
	x := uint64(*h)
	for i := 0; i < 8; i++ {
		x ^= v & 0xff
		x *= 1099511628211
		v >>= 8
	}
	*h = Hasher(x)
}
func (h *Hasher) Int(v int) { h.U64(uint64(int64(v))) }
func (h *Hasher) Str(s string) {
	x := uint64(*h)
	for i := 0; i < len(s); i++ {
		x ^= uint64(s[i])
		x *= 1099511628211
	}
	x ^= 0xff
	x *= 1099511628211
	*h = Hasher(x)
}
func (h *Hasher) Ints(v []int) {
	h.Int(len(v))
	for _, x := range v {
		h.Int(x)
	}
}
func (h *Hasher) Vals(v []Val) {
	h.Int(len(v))
	for _, x := range v {
		h.U64(x.Hash64())
	}
}
func (h Hasher) Sum() uint64 { return uint64(h) }
