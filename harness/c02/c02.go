// Package c02 decides property C02: slicing yields a channel-aware shared
// window with Go slice semantics, and out-of-range arguments panic.
package c02

import (
	"fmt"
	"math"
	"os"
	"strconv"
	"strings"

	"pgregory.net/rapid"
	"pipelined.dev/signal"
	"verif/harness/kit"
)

const Property = "C02"

// Step is one Slice(S,E) call on the current view. A valid step descends into
// the child; an invalid one must panic and leaves the current view in place.
type Step struct {
	S int `json:"s"`
	E int `json:"e"`
	// Pre: single samples appended to the current view before it is sliced, so
	// that the parent may end in a partial frame (its per-channel length then
	// counts the partly filled frame).
	Pre int `json:"pre,omitempty"`
}

type Case struct {
	T     string `json:"t"`
	C     int    `json:"c"`
	Kr    int    `json:"kr"` // root: Kr frames of length and capacity
	Steps []Step `json:"steps"`
	// Grown > 0: the parent is not a window of an allocated root but the result of a
	// growing Append: GrownPre single samples in a 1-frame buffer, then a source of Grown
	// samples appended. Its capacity is the runtime's choice and need not be a whole number
	// of frames; its per-channel length may then exceed its per-channel capacity.
	Grown    int `json:"grown,omitempty"`
	GrownPre int `json:"grownPre,omitempty"`
	// Huge > 0: a root of Huge frames (tens of millions of samples); only the shape of a few
	// windows and the sharing of their first and last samples are checked (see runHuge).
	Huge int `json:"huge,omitempty"`
}

var table = map[string]func(*Case) kit.Result{}

func reg[T signal.SignalTypes](n string) { table[n] = run[T] }

func init() {
	reg[int]("int")
	reg[int8]("int8")
	reg[int16]("int16")
	reg[int32]("int32")
	reg[int64]("int64")
	reg[uint]("uint")
	reg[uint8]("uint8")
	reg[uint16]("uint16")
	reg[uint32]("uint32")
	reg[uint64]("uint64")
	reg[uintptr]("uintptr")
	reg[float32]("float32")
	reg[float64]("float64")
	reg[kit.NInt16]("NInt16")
	reg[kit.NUint8]("NUint8")
	reg[kit.NFloat32]("NFloat32")
}

func Check(c *Case) kit.Result {
	f, ok := table[c.T]
	if !ok || c.C < 1 || c.Kr < 0 || c.C*c.Kr > 1<<22 || len(c.Steps) > 16 {
		return kit.Result{}
	}
	if c.Huge > 0 && (c.C > 8 || int64(c.Huge) > 1<<33 || int64(c.C)*int64(c.Huge) > 1<<32+64 || (int64(c.C)*int64(c.Huge) > 1<<26 && kit.Info(c.T).Bits > 8) || kit.Info(c.T).Bits > 16 ||
		(strconv.IntSize == 32 && int64(c.C)*int64(c.Huge) > 1<<27)) {
		return kit.Result{}
	}
	return f(c)
}

// memAvailable reads MemAvailable from /proc/meminfo (bytes; 0 when unknown).
func memAvailable() int64 {
	data, err := os.ReadFile("/proc/meminfo")
	if err != nil {
		return 0
	}
	for _, line := range strings.Split(string(data), "\n") {
		if strings.HasPrefix(line, "MemAvailable:") {
			f := strings.Fields(line)
			if len(f) >= 2 {
				kb, _ := strconv.ParseInt(f[1], 10, 64)
				return kb << 10
			}
		}
	}
	return 0
}

// runHuge: windows of a root holding more than 2^24 samples. Only headers and the sharing of
// the first and last sample of each window are checked (a full snapshot would cost gigabytes).
func runHuge[T signal.SignalTypes](c *Case) (res kit.Result) {
	C, K := c.C, c.Huge
	if bytes := int64(C) * int64(K) * int64(kit.BitsOf[T]()/8); bytes > 1<<30 && memAvailable() < 4*bytes {
		res.Class("skippedForLackOfMemory") // the storage stays virtual, but the machine must be able to promise it
		return
	}
	root := signal.Alloc[T](signal.Allocator{Channels: C, Length: K, Capacity: K})
	bits := kit.BitsOf[T]()
	if h := kit.HdrOf(root); h != kit.ModelHdr(C, C*K, C*K, bits) {
		res.Failf("root of %d frames x %d channels reports %+v, want %+v", K, C, h, kit.ModelHdr(C, C*K, C*K, bits))
		return
	}
	for i, w := range [][2]int{{0, K}, {3, K}, {3, K - 2}, {1, K - 1}, {K / 2, K}, {0, K/2 + 1}, {5, 5}} {
		s, e := w[0], w[1]
		if s < 0 || e < s || e > K {
			continue
		}
		var v *signal.Buffer[T]
		if p, pv := kit.Try(func() { v = root.Slice(s, e) }); p {
			res.Failf("Slice(%d,%d) of a root of %d frames x %d channels panicked: %v", s, e, K, C, pv)
			return
		}
		want := kit.ModelHdr(C, C*(e-s), C*(K-s), bits)
		if h := kit.HdrOf(v); h != want {
			res.Failf("Slice(%d,%d) of a root of %d frames x %d channels reports %+v, want %+v", s, e, K, C, h, want)
			return
		}
		if m := kit.RawMismatch(v, want); m != "" {
			res.Failf("Slice(%d,%d) of a root of %d frames x %d channels: %s", s, e, K, C, m)
			return
		}
		if e > s {
			first, last := T(11+i), T(37+i)
			v.SetSample(0, first)
			v.SetSample(C*(e-s)-1, last)
			if e-s == 1 && C == 1 {
				first = last
			}
			if g := root.Sample(C * s); g != first {
				res.Failf("Slice(%d,%d): wrote %v to the window's sample 0, the root's sample %d reads %v", s, e, first, C*s, g)
				return
			}
			if g := root.Sample(C*e - 1); g != last {
				res.Failf("Slice(%d,%d): wrote %v to the window's last sample, the root's sample %d reads %v", s, e, last, C*e-1, g)
				return
			}
		}
	}
	res.Class("windowsOfMoreThan2^24Samples")
	return
}

func mulOverflows(c, x int) bool {
	if x == 0 {
		return false
	}
	p := c * x
	return p/x != c || (x == -1 && c == math.MinInt)
}

// runGrown: every Slice(s,e) with s,e in [-1, Capacity+2] on a buffer produced by a growing Append.
func runGrown[T signal.SignalTypes](c *Case) (res kit.Result) {
	C := c.C
	if C < 2 || c.GrownPre < 0 || c.GrownPre >= C || c.Grown > 4096 {
		return
	}
	mk := func() *signal.Buffer[T] {
		b := signal.Alloc[T](signal.Allocator{Channels: C, Length: 0, Capacity: 1})
		for k := 0; k < c.GrownPre; k++ {
			b.AppendSample(T(kit.PartialVal(k)))
		}
		src := signal.Alloc[T](signal.Allocator{Channels: C, Length: 0, Capacity: c.Grown/C + 1})
		for k := 0; k < c.Grown; k++ {
			src.AppendSample(T(1 + k%90))
		}
		b.Append(src)
		return b
	}
	b := mk()
	ln, cp := b.Len(), b.Cap()
	capF := cp / C
	if b.Capacity() != capF || b.Length() != kit.CeilDiv(ln, C) {
		res.Failf("grown parent (len %d cap %d, %d ch) reports Length %d Capacity %d", ln, cp, C, b.Length(), b.Capacity())
		return
	}
	if cp%C != 0 {
		res.Class("parentCapacityNotWholeFrames")
	}
	if b.Length() > capF {
		res.Class("parentLengthExceedsCapacity")
	}
	res.Class("parentFromGrowingAppend")
	bits := kit.BitsOf[T]()
	for s := -1; s <= capF+2; s++ {
		for e := -1; e <= capF+2; e++ {
			what := fmt.Sprintf("Slice(%d,%d) on a grown buffer (len %d, cap %d samples, %d ch, per-channel length %d capacity %d)", s, e, ln, cp, C, kit.CeilDiv(ln, C), capF)
			var child *signal.Buffer[T]
			panicked, pv := kit.Try(func() { child = b.Slice(s, e) })
			if !(0 <= s && s <= e && e <= capF) {
				if !panicked {
					res.Failf("%s: returned a view (len %d cap %d) instead of panicking", what, child.Len(), child.Cap())
					return
				}
				continue
			}
			if panicked {
				res.Failf("%s: valid range panicked: %v", what, pv)
				return
			}
			want := kit.Hdr{Len: C * (e - s), Cap: cp - C*s, Length: e - s, Capacity: (cp - C*s) / C, Channels: C, BitDepth: bits}
			if h := kit.HdrOf(child); h != want {
				res.Failf("%s: child header %+v, want %+v", what, h, want)
				return
			}
			if b.Len() != ln || b.Cap() != cp {
				res.Failf("%s: parent changed to len %d cap %d", what, b.Len(), b.Cap())
				return
			}
			// the window is a parent in its own right: slicing it (its capacity, like the grown
			// buffer's, need not be a whole number of frames) leaves its header as it is, and the
			// nested window has exactly the capacity of the same window cut from the grown buffer
			for _, s2 := range []int{0, 1, want.Capacity} {
				if s2 > want.Capacity || (s2 == 1 && s+e > 7) { // the middle probe only for the first few windows
					continue
				}
				var nested *signal.Buffer[T]
				if p, v := kit.Try(func() { nested = child.Slice(s2, want.Capacity) }); p {
					res.Failf("%s, then Slice(%d,%d) on the window: panic: %v", what, s2, want.Capacity, v)
					return
				}
				if h := kit.HdrOf(child); h != want {
					res.Failf("%s: the window's header changed to %+v when it was sliced (was %+v)", what, h, want)
					return
				}
				if m := kit.RawMismatch(child, want); m != "" {
					res.Failf("%s: after the window was sliced: %s", what, m)
					return
				}
				direct := b.Slice(s+s2, s+want.Capacity)
				if hn, hd := kit.HdrOf(nested), kit.HdrOf(direct); hn != hd {
					res.Failf("%s, then Slice(%d,%d) on the window gives %+v; the same frames cut from the grown buffer directly give %+v", what, s2, want.Capacity, hn, hd)
					return
				}
				res.Class("windowOfAGrownParentSlicedAgain")
			}
			// sharing: the child's sample (ch,i) is the parent's position C*(s+i)+ch
			for k := 0; k < child.Len(); k++ {
				v := T(100 + (k+s)%27)
				child.SetSample(k, v)
				if C*s+k < ln {
					if got := b.Sample(C*s + k); !kit.Same(got, v) {
						res.Failf("%s: wrote %s through child position %d, parent position %d reads %s", what, kit.Str(v), k, C*s+k, kit.Str(got))
						return
					}
				}
			}
		}
	}
	return
}

func run[T signal.SignalTypes](c *Case) (res kit.Result) {
	if c.Grown > 0 {
		return runGrown[T](c)
	}
	if c.Huge > 0 {
		return runHuge[T](c)
	}
	C := c.C
	bits := kit.BitsOf[T]()
	root := kit.Root[T](C, c.Kr)
	model := kit.RootModel[T](C, c.Kr)
	cur := root
	// model of the current view, in frames; extra = samples of a partly filled last frame
	off, ln, cp := 0, c.Kr, c.Kr
	extra := 0
	depth := 0
	stamp := 0
	for si, st := range c.Steps {
		if st.Pre < 0 || st.Pre > 64 {
			return kit.Result{}
		}
		for k := 0; k < st.Pre; k++ {
			if C*ln+extra < C*cp {
				v := T(91 + k%9)
				cur.AppendSample(v)
				model[C*(off+ln)+extra] = v
				extra++
				if extra == C {
					ln, extra = ln+1, 0
				}
			}
		}
		if extra > 0 {
			res.Class("parentEndsInPartialFrame")
		}
		what := fmt.Sprintf("step %d Slice(%d,%d) on view(off=%d,len=%d frames+%d samples,cap=%d frames, %d ch)", si, st.S, st.E, off, ln, extra, cp, C)
		parentHdr := kit.HdrOf(cur)
		if want := kit.ModelHdr(C, C*ln+extra, C*cp, bits); parentHdr != want {
			res.Failf("%s: parent header %+v, want %+v", what, parentHdr, want)
			return
		}
		// other windows of the same parent, taken just before: one with the bounds of the next
		// step (a nested window must not be confused with an earlier sibling of its parent)
		// and one with the same bounds as this step (a second, independent header)
		if si+1 < len(c.Steps) {
			nx := c.Steps[si+1]
			if 0 <= nx.S && nx.S <= nx.E && nx.E <= cp {
				_ = cur.Slice(nx.S, nx.E)
			}
		}
		if 0 <= st.S && st.S <= st.E && st.E <= cp {
			twin := cur.Slice(st.S, st.E)
			if twin.Len() > 0 {
				twin = twin.Slice(0, 0) // use it a little, then drop it
			}
		}
		var child *signal.Buffer[T]
		panicked, pv := kit.Try(func() { child = cur.Slice(st.S, st.E) })
		valid := 0 <= st.S && st.S <= st.E && st.E <= cp
		if mulOverflows(C, st.S) || mulOverflows(C, st.E) {
			res.Class("overflowingArgument")
		}
		if !valid {
			res.Class("invalidRange")
			if !panicked {
				res.Failf("%s: returned a view (len=%d cap=%d) instead of panicking", what, child.Len(), child.Cap())
				return
			}
			if h := kit.HdrOf(cur); h != parentHdr {
				res.Failf("%s: parent header changed by rejected Slice: %+v, was %+v", what, h, parentHdr)
				return
			}
			if d := kit.DiffSlice("root storage after rejected Slice", kit.Snap(root), model); d != "" {
				res.Failf("%s: %s", what, d)
				return
			}
			continue
		}
		if panicked {
			res.Failf("%s: valid range panicked: %v", what, pv)
			return
		}
		if st.E > ln {
			res.Class("endBeyondLength")
		}
		if off > 0 {
			res.Class("parentIsOffsetWindow")
		}
		depth++
		if depth >= 2 {
			res.Class("nested")
		}
		coff, cln, ccp := off+st.S, st.E-st.S, cp-st.S
		want := kit.ModelHdr(C, C*cln, C*ccp, bits)
		if h := kit.HdrOf(child); h != want {
			res.Failf("%s: child header %+v, want %+v", what, h, want)
			return
		}
		if m := kit.RawMismatch(child, want); m != "" {
			res.Failf("%s: child %s", what, m)
			return
		}
		if h := kit.HdrOf(cur); h != parentHdr {
			res.Failf("%s: parent header changed: %+v, was %+v", what, h, parentHdr)
			return
		}
		if d := kit.DiffSlice("root storage after Slice", kit.Snap(root), model); d != "" {
			res.Failf("%s: %s", what, d)
			return
		}
		// sharing, both directions, over the child's length; positions chosen
		// densely for small windows and strided for large ones
		n := C * cln
		stride := 1
		if n > 96 {
			stride = n/61 + 1
		}
		for k := 0; k < n; k += stride {
			ch, i := k%C, k/C
			pos := C*(coff+i) + ch // root position of the child's sample (ch, i)
			stamp++
			v := T(100 + stamp%27)
			child.SetSample(C*i+ch, v)
			model[pos] = v
			if got := root.Sample(pos); !kit.Same(got, v) {
				res.Failf("%s: wrote %s through child sample (ch %d, frame %d); root position %d reads %s", what, kit.Str(v), ch, i, pos, kit.Str(got))
				return
			}
			// the parent sees it at frame S+i of the same channel, if inside its length
			if C*(st.S+i)+ch < C*ln+extra {
				if got := cur.Sample(C*(st.S+i) + ch); !kit.Same(got, v) {
					res.Failf("%s: wrote %s through child (ch %d, frame %d); parent frame %d reads %s", what, kit.Str(v), ch, i, st.S+i, kit.Str(got))
					return
				}
			}
			stamp++
			v2 := T(100 + stamp%27)
			root.SetSample(pos, v2)
			model[pos] = v2
			if got := child.Sample(C*i + ch); !kit.Same(got, v2) {
				res.Failf("%s: wrote %s at root position %d; child sample (ch %d, frame %d) reads %s", what, kit.Str(v2), pos, ch, i, kit.Str(got))
				return
			}
		}
		// the child's capacity region, seen through a full-capacity reslice
		var ext *signal.Buffer[T]
		if p, v := kit.Try(func() { ext = child.Slice(0, ccp) }); p {
			res.Failf("%s: child.Slice(0, capacity=%d) panicked: %v", what, ccp, v)
			return
		}
		if ext.Len() != C*ccp {
			res.Failf("%s: child.Slice(0,%d) has Len %d, want %d", what, ccp, ext.Len(), C*ccp)
			return
		}
		for k := 0; k < C*ccp; k += stride {
			if got, w := ext.Sample(k), model[C*coff+k]; !kit.Same(got, w) {
				res.Failf("%s: capacity-long reslice position %d reads %s, root position %d holds %s", what, k, kit.Str(got), C*coff+k, kit.Str(w))
				return
			}
		}
		if d := kit.DiffSlice("root storage after sharing probes", kit.Snap(root), model); d != "" {
			res.Failf("%s: %s", what, d)
			return
		}
		// The view is a buffer of its own: what is later done to its header (here: an
		// Append of one frame, in place or growing) leaves the parent's header
		// unchanged, and vice versa. Probed on throw-away copies of the situation,
		// so the chain continues on untouched buffers.
		{
			proot := kit.Root[T](C, c.Kr)
			pcur := proot
			for _, ps := range c.Steps[:si] {
				for k := 0; k < ps.Pre; k++ {
					pcur.AppendSample(T(91 + k%9))
				}
				if 0 <= ps.S && ps.S <= ps.E && ps.E <= pcur.Capacity() {
					pcur = pcur.Slice(ps.S, ps.E)
				}
			}
			for k := 0; k < st.Pre; k++ {
				pcur.AppendSample(T(91 + k%9))
			}
			pchild := pcur.Slice(st.S, st.E)
			ph, ch := kit.HdrOf(pcur), kit.HdrOf(pchild)
			one := kit.Root[T](C, 1)
			if p, v := kit.Try(func() { pchild.Append(one) }); p {
				res.Failf("%s: Append of one frame through the new view panicked: %v", what, v)
				return
			}
			if h := kit.HdrOf(pcur); h != ph {
				res.Failf("%s: appending one frame through the view changed the parent's header from %+v to %+v (the view is not a buffer of its own)", what, ph, h)
				return
			}
			if h := kit.HdrOf(pchild); h.Len != ch.Len+C {
				res.Failf("%s: appending one frame through the view left its Len at %d, want %d", what, h.Len, ch.Len+C)
				return
			}
			ch = kit.HdrOf(pchild)
			if p, v := kit.Try(func() { pcur.Append(one) }); p {
				res.Failf("%s: Append of one frame through the parent panicked: %v", what, v)
				return
			}
			if h := kit.HdrOf(pchild); h != ch {
				res.Failf("%s: appending one frame through the parent changed the view's header from %+v to %+v", what, ch, h)
				return
			}
		}
		cur, off, ln, cp, extra = child, coff, cln, ccp, 0
	}
	return
}

func FP(c *Case) uint64 {
	h := kit.NewHasher()
	h.Str(c.T)
	h.Int(c.Huge)
	h.Ints([]int{c.C, c.Kr, len(c.Steps), c.Grown, c.GrownPre})
	for _, s := range c.Steps {
		h.Int(s.S)
		h.Int(s.E)
		h.Int(s.Pre)
	}
	return h.Sum()
}

var names = append(kit.BuiltinNames(), kit.SomeNamed...)

func genBad(t *rapid.T, C, cp int) (int, int) {
	ext := []int{math.MinInt, math.MaxInt, math.MaxInt/2 + 1, -(math.MaxInt/2 + 1), math.MaxInt/4 + 1, -(math.MaxInt/4 + 1), math.MinInt + 1, math.MaxInt - 1}
	for k := 1; k <= 4; k++ {
		ext = append(ext, (math.MaxInt/C+1)*k, -(math.MaxInt/C+1)*k, (math.MaxInt/C+1)*k+1, (math.MaxInt/C+1)*k+cp)
	}
	inr := func(l string) int { return rapid.IntRange(0, cp).Draw(t, l) }
	switch rapid.IntRange(0, 7).Draw(t, "badKind") {
	case 0: // start < 0
		return -rapid.IntRange(1, 5).Draw(t, "neg"), inr("e")
	case 1: // start > end
		e := inr("e")
		return e + rapid.IntRange(1, 4).Draw(t, "d"), e
	case 2: // end beyond capacity by one
		return inr("s"), cp + 1
	case 3: // end far beyond capacity
		return inr("s"), cp + rapid.IntRange(2, 1000).Draw(t, "far")
	case 4: // extreme start
		return rapid.SampledFrom(ext).Draw(t, "xs"), inr("e")
	case 5: // extreme end
		return inr("s"), rapid.SampledFrom(ext).Draw(t, "xe")
	case 6: // both extreme
		return rapid.SampledFrom(ext).Draw(t, "xs"), rapid.SampledFrom(ext).Draw(t, "xe")
	default: // extreme start, end = start + small (the product wraps to a small window)
		s := rapid.SampledFrom(ext).Draw(t, "xs")
		d := rapid.IntRange(0, 3).Draw(t, "d")
		if s > math.MaxInt-d {
			return s, s
		}
		return s, s + d
	}
}

func Gen(t *rapid.T) *Case {
	c := &Case{T: rapid.SampledFrom(names).Draw(t, "type"), C: kit.GenChannels(t)}
	if c.C >= 2 && c.C <= 16 && rapid.IntRange(0, 7).Draw(t, "grownSel") == 0 {
		c.Grown = rapid.IntRange(1, 60).Draw(t, "grown")
		c.GrownPre = rapid.IntRange(0, c.C-1).Draw(t, "grownPre")
		return c
	}
	c.Kr = kit.GenFrames(t, "kr", 400)
	nsteps := rapid.IntRange(1, 5).Draw(t, "nsteps")
	ln, cp := c.Kr, c.Kr
	for i := 0; i < nsteps; i++ {
		if rapid.IntRange(0, 2).Draw(t, "bad") == 0 {
			s, e := genBad(t, c.C, cp)
			c.Steps = append(c.Steps, Step{S: s, E: e})
			if 0 <= s && s <= e && e <= cp { // a "bad" draw that happens to be valid
				ln, cp = e-s, cp-s
			}
			continue
		}
		var s, e int
		switch rapid.IntRange(0, 3).Draw(t, "goodKind") {
		case 0: // end reaches into the capacity beyond the length
			e = rapid.IntRange(kit.Min(ln, cp), cp).Draw(t, "e")
			s = rapid.IntRange(0, e).Draw(t, "s")
		case 1: // keep start 0
			s, e = 0, rapid.IntRange(0, cp).Draw(t, "e")
		default:
			s = rapid.IntRange(0, cp).Draw(t, "s")
			e = rapid.IntRange(s, cp).Draw(t, "e")
		}
		st := Step{S: s, E: e}
		if rapid.IntRange(0, 3).Draw(t, "preSel") == 0 && i > 0 {
			st.Pre = rapid.IntRange(1, 2*c.C).Draw(t, "pre")
		}
		c.Steps = append(c.Steps, st)
		ln, cp = e-s, cp-s
	}
	return c
}

var Oracle = kit.Oracle[Case]{Property: Property, Gen: Gen, Check: Check, FP: FP}
