package c02

import (
	"strconv"
	"testing"

	"verif/harness/kit"
)

func TestRegress(t *testing.T) { Oracle.Regress(t) }
func TestRapid(t *testing.T)   { Oracle.Rapid(t) }
func TestReplay(t *testing.T)  { Oracle.Replay(t) }
func FuzzC02(f *testing.F)     { Oracle.Fuzz(f) }

// TestSweep: every (s,e) in [-2,K+2]^2 at the first level and, under every
// valid first level, every (s,e) in [-2,cap+2]^2 at the second level.
func TestSweep(t *testing.T) {
	env := kit.GetEnv(Property)
	rec := kit.NewRecorder(env, "sweep")
	defer func() { rec.Flush(!t.Failed()) }()
	maxK := env.Pick(3, 5)
	// roots of more than 2^24 samples (a count held in a float32 or a 24-bit field would be off)
	for _, sh := range [][2]int{{1, 1<<24 + 9}, {2, 1<<23 + 5}, {3, 5592407}} {
		Oracle.One(t, env, rec, "sweep", &Case{T: "int8", C: sh[0], Huge: sh[1]})
	}
	// more than 2^31 (and 2^32) samples: 2 to 4 GiB of int8 that stay virtual, only a few samples are touched
	if strconv.IntSize == 64 {
		one := int64(1)
		Oracle.One(t, env, rec, "sweep", &Case{T: "int8", C: 2, Huge: int(one<<30 + 4)})
		Oracle.One(t, env, rec, "sweep", &Case{T: "uint8", C: 1, Huge: int(one<<32 + 3)})
	}
	if env.Thorough() {
		Oracle.One(t, env, rec, "sweep", &Case{T: "int16", C: 2, Huge: 1<<24 + 3})
		Oracle.One(t, env, rec, "sweep", &Case{T: "uint8", C: 1, Huge: 1<<25 + 1})
	}
	// channel counts around 256 and 65536
	for _, C := range []int{255, 256, 257, 65535, 65536, 65537} {
		for _, tn := range []string{"int8", "float64"} {
			Oracle.One(t, env, rec, "sweep", &Case{T: tn, C: C, Kr: 3, Steps: []Step{{S: 1, E: 3}, {S: 0, E: 1}}})
			Oracle.One(t, env, rec, "sweep", &Case{T: tn, C: C, Kr: 2, Steps: []Step{{S: 2, E: 2}}})
		}
	}
	for _, tn := range names {
		for C := 1; C <= 3; C++ {
			for K := 0; K <= maxK; K++ {
				for s := -2; s <= K+2; s++ {
					for e := -2; e <= K+2; e++ {
						first := Step{S: s, E: e}
						Oracle.One(t, env, rec, "sweep", &Case{T: tn, C: C, Kr: K, Steps: []Step{first}})
						if !(0 <= s && s <= e && e <= K) {
							continue
						}
						cp := K - s
						if C >= 2 { // the first-level window gets 1 or C+1 single samples, then every second-level slice
							for _, pre := range []int{1, C + 1} {
								for s2 := 0; s2 <= cp; s2++ {
									for e2 := s2; e2 <= cp; e2++ {
										Oracle.One(t, env, rec, "sweep", &Case{T: tn, C: C, Kr: K, Steps: []Step{first, {S: s2, E: e2, Pre: pre}}})
									}
								}
							}
						}
						for s2 := -2; s2 <= cp+2; s2++ {
							for e2 := -2; e2 <= cp+2; e2++ {
								Oracle.One(t, env, rec, "sweep", &Case{T: tn, C: C, Kr: K, Steps: []Step{first, {S: s2, E: e2}}})
							}
						}
					}
				}
			}
		}
	}
	// parents produced by a growing Append of partial frames
	for _, tn := range names {
		for C := 2; C <= 7; C++ {
			for pre := 0; pre < C; pre++ {
				for srcN := 1; srcN <= 3*C+2; srcN++ {
					Oracle.One(t, env, rec, "sweep", &Case{T: tn, C: C, Grown: srcN, GrownPre: pre})
				}
			}
		}
	}
	rec.Exhaustive("13 types x C<=3 x K<=3(5 thorough) x all (s,e) in [-2,K+2]^2 x all second-level (s,e) in [-2,cap+2]^2", true)
}
