// Command fpmerge prints the number of distinct 64-bit fingerprints in the
// union of the given little-endian binary files.
package main

import (
	"encoding/binary"
	"fmt"
	"os"
	"sort"
)

func main() {
	var all []uint64
	for _, p := range os.Args[1:] {
		b, err := os.ReadFile(p)
		if err != nil {
			fmt.Fprintln(os.Stderr, err)
			os.Exit(2)
		}
		for i := 0; i+8 <= len(b); i += 8 {
			all = append(all, binary.LittleEndian.Uint64(b[i:]))
		}
	}
	sort.Slice(all, func(i, j int) bool { return all[i] < all[j] })
	n := 0
	for i := range all {
		if i == 0 || all[i] != all[i-1] {
			n++
		}
	}
	fmt.Println(n)
}
