// Package c13 decides property C13: allocation yields exactly the requested,
// zeroed, independent buffer, with the element type's bit depth.
package c13

import (
	"fmt"

	"pgregory.net/rapid"
	"pipelined.dev/signal"
	"verif/harness/kit"
)

const Property = "C13"

// Case: two allocations of element type T.
type Case struct {
	T  string `json:"t"`
	C  int    `json:"c"`
	L  int    `json:"l"`
	K  int    `json:"k"`
	C2 int    `json:"c2"`
	L2 int    `json:"l2"`
	K2 int    `json:"k2"`
	// Mass > 0: instead of a pair, Mass buffers of the first shape are allocated
	// and all kept alive; each must be fresh when allocated and must still read
	// its own stamp after all the others were allocated and stamped.
	Mass int `json:"mass,omitempty"`
	// Via > 0 (pairs only): nothing is sliced before the first store. The buffers
	// are read directly up to their length, then the first is filled to its
	// capacity with AppendSample (Via 2: its visible part is stamped with SetSample
	// first), and only then the other allocations - one made before and one made
	// after the filling - are inspected, directly first and through a
	// whole-capacity slice last.
	Via int `json:"via,omitempty"`
}

var Types []string

func init() {
	for _, t := range kit.Builtins {
		Types = append(Types, t.Name)
	}
	for _, t := range kit.NamedTypes {
		Types = append(Types, t.Name)
	}
}

func known(name string) bool {
	for _, t := range Types {
		if t == name {
			return true
		}
	}
	return false
}

func checkOne(res *kit.Result, what string, ti kit.TypeInfo, b kit.AnyBuf, C, L, K int) (full kit.AnyBuf) {
	want := kit.Hdr{Len: C * L, Cap: C * K, Length: L, Capacity: K, Channels: C, BitDepth: ti.Bits}
	if h := b.Hdr(); h != want {
		res.Failf("%s: Alloc[%s]({Channels:%d Length:%d Capacity:%d}) reports %+v, want %+v", what, ti.Name, C, L, K, h, want)
		return nil
	}
	if m := kit.RawMismatch(b.Raw(), want); m != "" {
		res.Failf("%s: Alloc[%s]({Channels:%d Length:%d Capacity:%d}): %s", what, ti.Name, C, L, K, m)
		return nil
	}
	if p, v := kit.Try(func() { full = b.Slice(0, K) }); p {
		res.Failf("%s: Slice(0,%d) over the whole capacity panicked: %v", what, K, v)
		return nil
	}
	for i, v := range full.Snap() {
		if !kit.SameVal(v, zero(ti)) {
			res.Failf("%s: sample %d of the fresh buffer reads %s, want 0 (length %d, capacity %d samples)", what, i, v, C*L, C*K)
			return nil
		}
	}
	return full
}

func zero(ti kit.TypeInfo) kit.Val {
	switch ti.Kind {
	case kit.Signed:
		return kit.IV(0)
	case kit.Unsigned:
		return kit.UV(0)
	}
	return kit.FV(0)
}

func Check(c *Case) (res kit.Result) {
	if !known(c.T) || c.C < 1 || c.C2 < 1 || c.L < 0 || c.L > c.K || c.L2 < 0 || c.L2 > c.K2 || c.C*c.K > 1<<21 || c.C2*c.K2 > 1<<21 {
		return
	}
	ti := kit.Info(c.T)
	if c.Mass > 0 {
		return checkMass(c, ti)
	}
	if c.Via < 0 || c.Via > 2 {
		return
	}
	if c.Via > 0 {
		return checkDirect(c, ti)
	}
	a := kit.AllocAny(c.T, signal.Allocator{Channels: c.C, Length: c.L, Capacity: c.K})
	fa := checkOne(&res, "first allocation", ti, a, c.C, c.L, c.K)
	if res.Fail != "" {
		return
	}
	b := kit.AllocAny(c.T, signal.Allocator{Channels: c.C2, Length: c.L2, Capacity: c.K2})
	fb := checkOne(&res, "second allocation", ti, b, c.C2, c.L2, c.K2)
	if res.Fail != "" {
		return
	}
	// independence: stamp all of A's capacity; B must still be all zero, and vice versa
	for i := 0; i < fa.Len(); i++ {
		fa.Set(i, kit.IV(int64(1+i%100)))
	}
	for i, v := range fb.Snap() {
		if !kit.SameVal(v, zero(ti)) {
			res.Failf("writing through the first allocation changed sample %d of the second to %s", i, v)
			return
		}
	}
	for i := 0; i < fb.Len(); i++ {
		fb.Set(i, kit.IV(int64(101+i%20)))
	}
	for i, v := range fa.Snap() {
		if v.String() != fmt.Sprint(1+i%100) {
			res.Failf("writing through the second allocation changed sample %d of the first to %s", i, v)
			return
		}
	}
	if h := a.Hdr(); h.Len != c.C*c.L || h.Cap != c.C*c.K {
		res.Failf("first allocation's shape changed to %+v", h)
		return
	}
	if !growFirst(&res, c, ti, a, b, fa) {
		return
	}
	if c.L < c.K {
		res.Class("lengthBelowCapacity")
	}
	if ti.Named {
		res.Class("namedType")
	}
	if c.C >= 2 {
		res.Class("multiChannel")
	}
	return
}

// growFirst: the first allocation grows beyond its capacity by an Append; the
// second one (shape, contents) and a fresh allocation of the first one's shape
// must not notice.
func growFirst(res *kit.Result, c *Case, ti kit.TypeInfo, a, b, old kit.AnyBuf) bool {
	hb, sb := b.Hdr(), b.Slice(0, c.K2).Snap()
	if a.Len()%c.C != 0 {
		return true
	}
	src := kit.AnyRoot(c.T, c.C, c.K-a.Hdr().Length+2)
	if p, v := kit.Try(func() { a.Append(src) }); p {
		res.Failf("growing the first allocation (%d ch, length %d, capacity %d) by an Append of %d frames panicked: %v", c.C, c.L, c.K, src.Hdr().Length, v)
		return false
	}
	if h := b.Hdr(); h != hb {
		res.Failf("growing the first allocation by an Append changed the second allocation from %+v to %+v", hb, h)
		return false
	}
	if d := kit.DiffVals("second allocation after the first one grew", b.Slice(0, c.K2).Snap(), sb); d != "" {
		res.Failf("%s", d)
		return false
	}
	fresh := kit.AllocAny(c.T, signal.Allocator{Channels: c.C, Length: c.L, Capacity: c.K})
	ff := checkOne(res, "allocation of the first shape after the first allocation grew", ti, fresh, c.C, c.L, c.K)
	if res.Fail != "" {
		return false
	}
	// the storage the first allocation outgrew is still in use by the views cut from it before:
	// it must not come back as the storage of a new allocation
	if old != nil && ff != nil {
		for i := 0; i < old.Len(); i++ {
			old.Set(i, kit.IV(int64(31+i%60)))
		}
		for i, v := range ff.Snap() {
			if !kit.SameVal(v, zero(ti)) {
				res.Failf("a view cut from the first allocation before it grew was written through: sample %d of a later allocation of the same shape now reads %s (the outgrown storage was handed out again)", i, v)
				return false
			}
		}
		for i := 0; i < ff.Len(); i++ {
			ff.Set(i, kit.IV(int64(2+i%9)))
		}
		for i, v := range old.Snap() {
			if v.String() != fmt.Sprint(31+i%60) {
				res.Failf("a later allocation of the same shape was written through: sample %d of a view cut from the first allocation before it grew now reads %s", i, v)
				return false
			}
		}
		res.Class("outgrownStorageStillViewed")
	}
	if c.K == 0 {
		res.Class("emptyAllocationGrewOthersUnaffected")
	}
	return true
}

// checkDirect: see Case.Via.
func checkDirect(c *Case, ti kit.TypeInfo) (res kit.Result) {
	z := zero(ti)
	hdr := func(what string, b kit.AnyBuf, C, L, K int) bool {
		want := kit.Hdr{Len: C * L, Cap: C * K, Length: L, Capacity: K, Channels: C, BitDepth: ti.Bits}
		if h := b.Hdr(); h != want {
			res.Failf("%s: Alloc[%s]({Channels:%d Length:%d Capacity:%d}) reports %+v, want %+v", what, ti.Name, C, L, K, h, want)
			return false
		}
		return true
	}
	visibleZero := func(what string, b kit.AnyBuf) bool {
		for i, n := 0, b.Len(); i < n; i++ {
			if v := b.Get(i); !kit.SameVal(v, z) {
				res.Failf("%s: sample %d (read directly, nothing sliced or stored yet) is %s, want 0", what, i, v)
				return false
			}
		}
		return true
	}
	stamp := func(i int) kit.Val { return kit.IV(int64(1 + i%100)) }
	a := kit.AllocAny(c.T, signal.Allocator{Channels: c.C, Length: c.L, Capacity: c.K})
	b := kit.AllocAny(c.T, signal.Allocator{Channels: c.C2, Length: c.L2, Capacity: c.K2})
	if !hdr("first allocation", a, c.C, c.L, c.K) || !hdr("second allocation", b, c.C2, c.L2, c.K2) ||
		!visibleZero("first allocation", a) || !visibleZero("second allocation", b) {
		return
	}
	// fill the first allocation to its capacity; its first store is an AppendSample when Via == 1 and L < K
	n0, n := c.C*c.L, c.C*c.K
	if c.Via == 2 {
		for i := 0; i < n0; i++ {
			a.Set(i, stamp(i))
		}
	}
	for i := n0; i < n; i++ {
		a.AppendSample(stamp(i))
	}
	a.AppendSample(stamp(7)) // full: no effect
	if h := a.Hdr(); h.Len != n || h.Cap != n {
		res.Failf("first allocation (%d ch, length %d, capacity %d) filled with AppendSample: Len/Cap %d/%d, want %d/%d", c.C, c.L, c.K, h.Len, h.Cap, n, n)
		return
	}
	wantA := func(i int) kit.Val {
		if i < n0 && c.Via == 1 {
			return z
		}
		return stamp(i)
	}
	checkA := func(when string) bool {
		for i := 0; i < n; i++ {
			if v := a.Get(i); v.String() != wantA(i).String() {
				res.Failf("%s: sample %d of the first allocation reads %s, want %s", when, i, v, wantA(i))
				return false
			}
		}
		return true
	}
	if !checkA("after filling it with AppendSample") {
		return
	}
	// an allocation made after the filling, fully visible
	d := kit.AllocAny(c.T, signal.Allocator{Channels: c.C2, Length: c.K2, Capacity: c.K2})
	if !hdr("allocation made after the first one was filled", d, c.C2, c.K2, c.K2) ||
		!visibleZero("allocation made after the first one was filled with AppendSample", d) ||
		!visibleZero("second allocation, after the first one was filled with AppendSample,", b) {
		return
	}
	var fb kit.AnyBuf
	if p, v := kit.Try(func() { fb = b.Slice(0, c.K2) }); p {
		res.Failf("second allocation: Slice(0,%d) over the whole capacity panicked: %v", c.K2, v)
		return
	}
	for i, v := range fb.Snap() {
		if !kit.SameVal(v, z) {
			res.Failf("filling the first allocation with AppendSample changed sample %d of the second one's capacity to %s", i, v)
			return
		}
	}
	// and the other way round: fill the second and the late one, the first keeps its stamps
	for i := c.C2 * c.L2; i < c.C2*c.K2; i++ {
		b.AppendSample(kit.IV(int64(101 + i%20)))
	}
	for i := 0; i < d.Len(); i++ {
		d.Set(i, kit.IV(int64(103+i%20)))
	}
	if !checkA("after the other allocations were filled") {
		return
	}
	for i := 0; i < b.Len(); i++ {
		want := kit.IV(int64(101 + i%20))
		if i < c.C2*c.L2 {
			want = kit.IV(0)
		}
		if v := b.Get(i); v.String() != want.String() {
			res.Failf("second allocation: sample %d reads %s after filling, want %s", i, v, want)
			return
		}
	}
	if !growFirst(&res, c, ti, a, b, nil) {
		return
	}
	res.Class("nothingSlicedBeforeFirstStore")
	if c.L < c.K && c.Via == 1 {
		res.Class("firstStoreIsAppendSample")
	}
	if ti.Named {
		res.Class("namedType")
	}
	return
}

func checkMass(c *Case, ti kit.TypeInfo) (res kit.Result) {
	if c.Mass > 1<<18 || c.C*c.K > 4096 || c.C*c.K == 0 {
		return
	}
	n := c.C * c.K
	live := make([]kit.AnyBuf, 0, c.Mass)
	stampOf := func(i, k int) kit.Val { return kit.IV(int64(1 + (i*7+k)%120)) }
	for i := 0; i < c.Mass; i++ {
		b := kit.AllocAny(c.T, signal.Allocator{Channels: c.C, Length: c.L, Capacity: c.K})
		full := checkOne(&res, fmt.Sprintf("allocation #%d of %d live ones", i, c.Mass), ti, b, c.C, c.L, c.K)
		if res.Fail != "" {
			return
		}
		for k := 0; k < n; k++ {
			full.Set(k, stampOf(i, k))
		}
		live = append(live, full)
	}
	for i, full := range live {
		for k := 0; k < n; k++ {
			if got := full.Get(k); got.String() != stampOf(i, k).String() {
				res.Failf("allocation #%d of %d (all kept alive, %s, %d samples each): sample %d reads %s, its stamp is %s - storage shared with another allocation", i, c.Mass, c.T, n, k, got, stampOf(i, k))
				return
			}
		}
	}
	res.Class("manyLiveAllocations")
	if ti.Named {
		res.Class("namedType")
	}
	return
}

func FP(c *Case) uint64 {
	h := kit.NewHasher()
	h.Str(c.T)
	h.Ints([]int{c.C, c.L, c.K, c.C2, c.L2, c.K2, c.Mass, c.Via})
	return h.Sum()
}

func genShape(t *rapid.T, l string) (C, L, K int) {
	C = kit.GenChannels(t)
	K = kit.GenFrames(t, l+"K", 4096)
	switch rapid.IntRange(0, 3).Draw(t, l+"LSel") {
	case 0:
		L = 0
	case 1:
		L = K
	default:
		L = rapid.IntRange(0, K).Draw(t, l+"L")
	}
	return
}

func Gen(t *rapid.T) *Case {
	c := &Case{T: rapid.SampledFrom(Types).Draw(t, "type")}
	c.C, c.L, c.K = genShape(t, "a")
	if kit.Chance(t, "mass", 1, 25) && c.C*c.K > 0 && c.C*c.K <= 512 {
		c.Mass = rapid.IntRange(2, 3000).Draw(t, "massN")
	}
	if c.Mass == 0 && rapid.IntRange(0, 2).Draw(t, "viaSel") == 0 {
		c.Via = rapid.IntRange(1, 2).Draw(t, "via")
	}
	if rapid.Bool().Draw(t, "sameShape") {
		c.C2, c.L2, c.K2 = c.C, c.L, c.K
	} else {
		c.C2, c.L2, c.K2 = genShape(t, "b")
	}
	return c
}

var Oracle = kit.Oracle[Case]{Property: Property, Gen: Gen, Check: Check, FP: FP}
