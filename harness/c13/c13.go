// Package c13 decides property C13: allocation yields exactly the requested,
// zeroed, independent buffer, with the element type's bit depth.
package c13

import (
	"fmt"

	"pgregory.net/rapid"
	"pipelined.dev/signal"
	"verif/harness/kit"
)

const Property = "C13"

// Case: two allocations of element type T.
type Case struct {
	T  string `json:"t"`
	C  int    `json:"c"`
	L  int    `json:"l"`
	K  int    `json:"k"`
	C2 int    `json:"c2"`
	L2 int    `json:"l2"`
	K2 int    `json:"k2"`
	// Mass > 0: instead of a pair, Mass buffers of the first shape are allocated
	// and all kept alive; each must be fresh when allocated and must still read
	// its own stamp after all the others were allocated and stamped.
	Mass int `json:"mass,omitempty"`
}

var Types []string

func init() {
	for _, t := range kit.Builtins {
		Types = append(Types, t.Name)
	}
	for _, t := range kit.NamedTypes {
		Types = append(Types, t.Name)
	}
}

func known(name string) bool {
	for _, t := range Types {
		if t == name {
			return true
		}
	}
	return false
}

func checkOne(res *kit.Result, what string, ti kit.TypeInfo, b kit.AnyBuf, C, L, K int) (full kit.AnyBuf) {
	want := kit.Hdr{Len: C * L, Cap: C * K, Length: L, Capacity: K, Channels: C, BitDepth: ti.Bits}
	if h := b.Hdr(); h != want {
		res.Failf("%s: Alloc[%s]({Channels:%d Length:%d Capacity:%d}) reports %+v, want %+v", what, ti.Name, C, L, K, h, want)
		return nil
	}
	if p, v := kit.Try(func() { full = b.Slice(0, K) }); p {
		res.Failf("%s: Slice(0,%d) over the whole capacity panicked: %v", what, K, v)
		return nil
	}
	for i, v := range full.Snap() {
		if !kit.SameVal(v, zero(ti)) {
			res.Failf("%s: sample %d of the fresh buffer reads %s, want 0 (length %d, capacity %d samples)", what, i, v, C*L, C*K)
			return nil
		}
	}
	return full
}

func zero(ti kit.TypeInfo) kit.Val {
	switch ti.Kind {
	case kit.Signed:
		return kit.IV(0)
	case kit.Unsigned:
		return kit.UV(0)
	}
	return kit.FV(0)
}

func Check(c *Case) (res kit.Result) {
	if !known(c.T) || c.C < 1 || c.C2 < 1 || c.L < 0 || c.L > c.K || c.L2 < 0 || c.L2 > c.K2 || c.C*c.K > 1<<21 || c.C2*c.K2 > 1<<21 {
		return
	}
	ti := kit.Info(c.T)
	if c.Mass > 0 {
		return checkMass(c, ti)
	}
	a := kit.AllocAny(c.T, signal.Allocator{Channels: c.C, Length: c.L, Capacity: c.K})
	fa := checkOne(&res, "first allocation", ti, a, c.C, c.L, c.K)
	if res.Fail != "" {
		return
	}
	b := kit.AllocAny(c.T, signal.Allocator{Channels: c.C2, Length: c.L2, Capacity: c.K2})
	fb := checkOne(&res, "second allocation", ti, b, c.C2, c.L2, c.K2)
	if res.Fail != "" {
		return
	}
	// independence: stamp all of A's capacity; B must still be all zero, and vice versa
	for i := 0; i < fa.Len(); i++ {
		fa.Set(i, kit.IV(int64(1+i%100)))
	}
	for i, v := range fb.Snap() {
		if !kit.SameVal(v, zero(ti)) {
			res.Failf("writing through the first allocation changed sample %d of the second to %s", i, v)
			return
		}
	}
	for i := 0; i < fb.Len(); i++ {
		fb.Set(i, kit.IV(int64(101+i%20)))
	}
	for i, v := range fa.Snap() {
		if v.String() != fmt.Sprint(1+i%100) {
			res.Failf("writing through the second allocation changed sample %d of the first to %s", i, v)
			return
		}
	}
	if h := a.Hdr(); h.Len != c.C*c.L || h.Cap != c.C*c.K {
		res.Failf("first allocation's shape changed to %+v", h)
		return
	}
	if c.L < c.K {
		res.Class("lengthBelowCapacity")
	}
	if ti.Named {
		res.Class("namedType")
	}
	if c.C >= 2 {
		res.Class("multiChannel")
	}
	return
}

func checkMass(c *Case, ti kit.TypeInfo) (res kit.Result) {
	if c.Mass > 1<<18 || c.C*c.K > 4096 || c.C*c.K == 0 {
		return
	}
	n := c.C * c.K
	live := make([]kit.AnyBuf, 0, c.Mass)
	stampOf := func(i, k int) kit.Val { return kit.IV(int64(1 + (i*7+k)%120)) }
	for i := 0; i < c.Mass; i++ {
		b := kit.AllocAny(c.T, signal.Allocator{Channels: c.C, Length: c.L, Capacity: c.K})
		full := checkOne(&res, fmt.Sprintf("allocation #%d of %d live ones", i, c.Mass), ti, b, c.C, c.L, c.K)
		if res.Fail != "" {
			return
		}
		for k := 0; k < n; k++ {
			full.Set(k, stampOf(i, k))
		}
		live = append(live, full)
	}
	for i, full := range live {
		for k := 0; k < n; k++ {
			if got := full.Get(k); got.String() != stampOf(i, k).String() {
				res.Failf("allocation #%d of %d (all kept alive, %s, %d samples each): sample %d reads %s, its stamp is %s - storage shared with another allocation", i, c.Mass, c.T, n, k, got, stampOf(i, k))
				return
			}
		}
	}
	res.Class("manyLiveAllocations")
	if ti.Named {
		res.Class("namedType")
	}
	return
}

func FP(c *Case) uint64 {
	h := kit.NewHasher()
	h.Str(c.T)
	h.Ints([]int{c.C, c.L, c.K, c.C2, c.L2, c.K2, c.Mass})
	return h.Sum()
}

func genShape(t *rapid.T, l string) (C, L, K int) {
	C = kit.GenChannels(t)
	K = kit.GenFrames(t, l+"K", 4096)
	switch rapid.IntRange(0, 3).Draw(t, l+"LSel") {
	case 0:
		L = 0
	case 1:
		L = K
	default:
		L = rapid.IntRange(0, K).Draw(t, l+"L")
	}
	return
}

func Gen(t *rapid.T) *Case {
	c := &Case{T: rapid.SampledFrom(Types).Draw(t, "type")}
	c.C, c.L, c.K = genShape(t, "a")
	if kit.Chance(t, "mass", 1, 25) && c.C*c.K > 0 && c.C*c.K <= 512 {
		c.Mass = rapid.IntRange(2, 3000).Draw(t, "massN")
	}
	if rapid.Bool().Draw(t, "sameShape") {
		c.C2, c.L2, c.K2 = c.C, c.L, c.K
	} else {
		c.C2, c.L2, c.K2 = genShape(t, "b")
	}
	return c
}

var Oracle = kit.Oracle[Case]{Property: Property, Gen: Gen, Check: Check, FP: FP}
