package c13

import (
	"testing"

	"verif/harness/kit"
)

func TestRegress(t *testing.T) { Oracle.Regress(t) }
func TestRapid(t *testing.T)   { Oracle.Rapid(t) }
func TestReplay(t *testing.T)  { Oracle.Replay(t) }
func FuzzC13(f *testing.F)     { Oracle.Fuzz(f) }

func TestSweep(t *testing.T) {
	env := kit.GetEnv(Property)
	rec := kit.NewRecorder(env, "sweep")
	defer func() { rec.Flush(!t.Failed()) }()
	maxC, maxK := env.Pick(8, 16), env.Pick(6, 9)
	for _, tn := range Types {
		for C := 1; C <= maxC; C++ {
			for K := 0; K <= maxK; K++ {
				for L := 0; L <= K; L++ {
					Oracle.One(t, env, rec, "sweep", &Case{T: tn, C: C, L: L, K: K, C2: C, L2: L, K2: K})
					Oracle.One(t, env, rec, "sweep", &Case{T: tn, C: C, L: L, K: K, C2: 2, L2: 1, K2: 3})
				}
			}
		}
	}
	rec.Exhaustive("26 types (13 built-in + 13 named) x C<=8(16) x all 0<=L<=K<=6(9) x {same shape, 2x1x3} second allocation", true)
}
