package c13

import (
	"testing"

	"verif/harness/kit"
)

func TestRegress(t *testing.T) { Oracle.Regress(t) }
func TestRapid(t *testing.T)   { Oracle.Rapid(t) }
func TestReplay(t *testing.T)  { Oracle.Replay(t) }
func FuzzC13(f *testing.F)     { Oracle.Fuzz(f) }

func TestSweep(t *testing.T) {
	env := kit.GetEnv(Property)
	rec := kit.NewRecorder(env, "sweep")
	defer func() { rec.Flush(!t.Failed()) }()
	maxC, maxK := env.Pick(8, 16), env.Pick(6, 9)
	for _, tn := range Types {
		for C := 1; C <= maxC; C++ {
			for K := 0; K <= maxK; K++ {
				for L := 0; L <= K; L++ {
					Oracle.One(t, env, rec, "sweep", &Case{T: tn, C: C, L: L, K: K, C2: C, L2: L, K2: K})
					Oracle.One(t, env, rec, "sweep", &Case{T: tn, C: C, L: L, K: K, C2: 2, L2: 1, K2: 3})
					if C <= 4 {
						Oracle.One(t, env, rec, "sweep", &Case{T: tn, C: C, L: L, K: K, C2: C, L2: L, K2: K, Via: 1 + (C+K+L)%2})
						Oracle.One(t, env, rec, "sweep", &Case{T: tn, C: C, L: L, K: K, C2: 1, L2: 2, K2: 700, Via: 2 - (C+K+L)%2})
					}
				}
			}
		}
	}
	// channel counts around 256 and 65536: the count is an int, not a narrower integer
	for _, tn := range []string{"int8", "float32"} {
		for _, C := range []int{255, 256, 257, 65535, 65536, 65537, 65538, 70001, 131072} {
			Oracle.One(t, env, rec, "sweep", &Case{T: tn, C: C, L: 1, K: 2, C2: C, L2: 0, K2: 1})
		}
	}
	// every channel count 1..64 (per-channel arithmetic must be exact for each of them)
	for _, tn := range []string{"int8", "float64", "NUint32"} {
		for C := 1; C <= 64; C++ {
			for _, lk := range [][2]int{{0, 1}, {1, 1}, {2, 3}, {0, 8}, {511, 512}, {1000, 1000}} {
				Oracle.One(t, env, rec, "sweep", &Case{T: tn, C: C, L: lk[0], K: lk[1], C2: C, L2: 0, K2: 1})
			}
		}
	}
	// many small allocations of one size, all kept alive: uniform sizes that divide powers of two (arena / size-class boundaries)
	for _, tn := range []string{"int8", "uint16", "float32", "float64", "NInt16"} {
		w := kit.Info(tn).Bits / 8
		for _, bytes := range []int{1, 2, 8, 64, 256, 512, 24, 100} {
			if bytes%w != 0 {
				continue
			}
			m := 2*65536/bytes + 10
			if bytes >= 64 {
				m = 2*(1<<20)/bytes/env.Pick(8, 1) + 10
			}
			Oracle.One(t, env, rec, "sweep", &Case{T: tn, C: 1, L: 0, K: bytes / w, C2: 1, L2: 0, K2: 1, Mass: m})
		}
	}
	rec.Exhaustive("26 types (13 built-in + 13 named) x C<=8(16) x all 0<=L<=K<=6(9) x {same shape, 2x1x3} second allocation", true)
}
