// Package c14 decides property C14: a channel view addresses exactly its
// channel of the parent buffer.
package c14

import (
	"fmt"
	"math"

	"pipelined.dev/signal"

	"pgregory.net/rapid"
	"verif/harness/kit"
)

const Property = "C14"

// Case: parent = frame-aligned window [A,B) of a root with Kr frames; the view
// of channel Ch is probed at the indices Idx (all indices when Idx is empty).
type Case struct {
	T   string `json:"t"`
	C   int    `json:"c"`
	Kr  int    `json:"kr"`
	A   int    `json:"a"`
	B   int    `json:"b"`
	Ch  int    `json:"ch"`
	Idx []int  `json:"idx,omitempty"`
	Fix int    `json:"fix,omitempty"` // fixture construction order, see kit.AnyRootWindow
	// Grow > 0: after the view was taken, Grow frames are appended to the parent
	// (in place when its capacity allows, otherwise the parent moves to new
	// storage); the view must keep addressing the parent.
	Grow int `json:"grow,omitempty"`
	// GrownSrc > 0: the parent is the result of a growing Append: A single samples in a 1-frame
	// buffer (A < C), then a source of GrownSrc samples. It may end in a partial frame and its
	// capacity need not be a whole number of frames; the view is probed at every (channel, index)
	// that exists in the parent.
	GrownSrc int `json:"grownSrc,omitempty"`
	// Pre > 0: views were taken (and read through) before the parent window was cut:
	// 1 = of the root, every channel; 2 = of an intermediate window [A/2,Kr) from which the
	// parent is then sliced. The parent's own views must address the parent all the same.
	Pre int `json:"pre,omitempty"`
}

var names = allNames()

// probeVal is the value written through the view at a probe: small integers for the integer
// types; for the floating types values that are not whole numbers, infinities and a value
// beyond int32 (all exact in float32).
func probeVal(tn string, k int) kit.Val {
	if ti := kit.Info(tn); ti.Kind == kit.Float {
		tiny := math.SmallestNonzeroFloat64 // a subnormal of the element type
		if ti.Bits == 32 {
			tiny = float64(math.SmallestNonzeroFloat32)
		}
		return kit.FV([]float64{0.25, -0.5, 1.5, -7.75, 100.5, 0.0009765625, math.Inf(1), math.Inf(-1), 3221225472, tiny, -3 * tiny}[k%11])
	}
	return kit.IV(int64(100 + k%27))
}

// allNames: the 13 built-in element types and the named types over them.
func allNames() []string {
	out := kit.BuiltinNames()
	for _, t := range kit.NamedTypes {
		out = append(out, t.Name)
	}
	return out
}

func Check(c *Case) (res kit.Result) {
	ok := false
	for _, n := range names {
		ok = ok || n == c.T
	}
	if c.GrownSrc > 0 {
		if !ok || c.C < 2 || c.C > 64 || c.A < 0 || c.A >= c.C || c.Ch < 0 || c.Ch >= c.C || c.GrownSrc > 4096 {
			return
		}
		C := c.C
		g := kit.AllocAny(c.T, signal.Allocator{Channels: C, Length: 0, Capacity: 1})
		for k := 0; k < c.A; k++ {
			g.AppendSample(kit.IV(kit.PartialVal(k)))
		}
		src := kit.AllocAny(c.T, signal.Allocator{Channels: C, Length: 0, Capacity: c.GrownSrc/C + 1})
		for k := 0; k < c.GrownSrc; k++ {
			src.AppendSample(kit.IV(int64(1 + k%90)))
		}
		g.Append(src)
		view := g.Channel(c.Ch)
		n := 0 // indices of this channel that exist in the parent: C*i+ch < Len
		for C*n+c.Ch < g.Len() {
			n++
		}
		if g.Hdr().Cap%C != 0 {
			res.Class("parentCapacityNotWholeFrames")
		}
		if g.Hdr().Length > g.Hdr().Capacity {
			res.Class("parentLengthExceedsCapacity")
		}
		cc := *c
		cc.Idx = nil
		return checkMovedN(&cc, &res, g, view, n)
	}
	if !ok || c.C < 1 || c.C > 64 || c.Kr < 0 || c.A < 0 || c.A > c.B || c.B > c.Kr || c.Ch < 0 || c.Ch >= c.C || c.C*c.Kr > 1<<20 {
		return
	}
	C := c.C
	if c.Fix < 0 || c.Fix == 3 || c.Fix > 1<<12 {
		return
	}
	root, parent := kit.AnyRootWindow(c.T, C, c.Kr, c.A, c.B, 0, c.Fix)
	model := root.Snap()
	if c.Pre < 0 || c.Pre > 2 {
		return
	}
	if c.Pre > 0 {
		from, shift := root, 0
		if c.Pre == 2 {
			from, shift = root.Slice(c.A/2, c.Kr), c.A/2
		}
		for ch := 0; ch < C; ch++ {
			if v := from.Channel(ch); v.Length() > 0 {
				_ = v.Sample(0)
			}
		}
		parent = from.Slice(c.A-shift, c.B-shift)
		res.Class("viewsTakenBeforeTheParentWasSliced")
	}
	ph := parent.Hdr()
	frames := c.B - c.A
	var view kit.AnyChan
	if p, v := kit.Try(func() { view = parent.Channel(c.Ch) }); p {
		res.Failf("Channel(%d) panicked: %v", c.Ch, v)
		return
	}
	if c.Grow < 0 || c.Grow > 4096 {
		return kit.Result{}
	}
	moved := false
	if c.Grow > 0 {
		// touch the view first, then change the parent behind it
		if frames > 0 {
			_ = view.Sample(0)
		}
		src := kit.AllocAny(c.T, signal.Allocator{Channels: C, Length: c.Grow, Capacity: c.Grow})
		for i := 0; i < src.Len(); i++ {
			src.Set(i, kit.IV(int64(61+i%50)))
		}
		moved = frames+c.Grow > c.Kr-c.A
		if p, v := kit.Try(func() { parent.Append(src) }); p {
			res.Failf("Append of %d frames to the parent panicked: %v", c.Grow, v)
			return
		}
		if !moved {
			for i := 0; i < src.Len(); i++ {
				model[C*c.B+i] = src.Get(i)
			}
		}
		frames += c.Grow
		ph = parent.Hdr()
		if moved {
			res.Class("parentMovedAfterViewWasTaken")
		} else {
			res.Class("parentGrewInPlaceAfterViewWasTaken")
		}
	}
	if moved {
		// the parent lives in storage of its own now: it is its own reference
		return checkMoved(c, &res, parent, view, frames)
	}
	if view.Channels() != 1 || view.Length() != frames || view.Capacity() != c.Kr-c.A {
		res.Failf("view of channel %d reports channels=%d length=%d capacity=%d, want 1, %d, %d", c.Ch, view.Channels(), view.Length(), view.Capacity(), frames, c.Kr-c.A)
		return
	}
	idx := c.Idx
	if len(idx) == 0 {
		for i := 0; i < frames; i++ {
			idx = append(idx, i)
		}
	}
	for _, i := range idx {
		if i < 0 || i >= frames {
			continue
		}
		pos := C*(c.A+i) + c.Ch // root position of the parent's sample i of channel Ch
		what := fmt.Sprintf("%d-channel parent at frames [%d,%d), view of channel %d, index %d", C, c.A, c.B, c.Ch, i)
		var got kit.Val
		if p, v := kit.Try(func() { got = view.Sample(i) }); p {
			res.Failf("%s: Sample panicked: %v", what, v)
			return
		}
		if !kit.SameVal(got, model[pos]) {
			res.Failf("%s: Sample returned %s, the parent's sample is %s (root position %d)", what, got, model[pos], pos)
			return
		}
		// the index the view reports for i is the parent's position of (its channel, i),
		// whatever is passed as the first argument (the view has one channel)
		for _, arg := range []int{c.Ch, 0, (c.Ch + 1) % C, C - 1} {
			if bi := view.BufferIndex(arg, i); bi != C*i+c.Ch {
				res.Failf("%s: BufferIndex(%d,%d) = %d, want the parent's interleaved position of (channel %d, index %d) = %d", what, arg, i, bi, c.Ch, i, C*i+c.Ch)
				return
			}
		}
		nv := probeVal(c.T, i+c.Ch)
		if p, v := kit.Try(func() { view.SetSample(i, nv) }); p {
			res.Failf("%s: SetSample panicked: %v", what, v)
			return
		}
		model[pos] = root.Get(pos) // value as stored in T
		if model[pos].String() != nv.String() {
			res.Failf("%s: SetSample(%s) left root position %d at %s", what, nv, pos, model[pos])
			return
		}
		if d := kit.DiffVals("root storage after SetSample through the view", root.Snap(), model); d != "" {
			res.Failf("%s: %s", what, d)
			return
		}
		if back := view.Sample(i); !kit.SameVal(back, model[pos]) {
			res.Failf("%s: wrote %s through the view, read back %s through the view", what, nv, back)
			return
		}
		if kit.Info(c.T).Kind == kit.Float {
			// values that compare equal but are different samples: +0 and -0
			for _, z := range []float64{0, math.Copysign(0, -1), 0} {
				zv := kit.FV(z)
				view.SetSample(i, zv)
				if back := view.Sample(i); !kit.SameVal(back, zv) {
					res.Failf("%s: wrote %v (sign bit %v) through the view, read back %v (sign bit %v)", what, z, math.Signbit(z), back.F, math.Signbit(back.F))
					return
				}
				model[pos] = root.Get(pos)
				if !kit.SameVal(model[pos], zv) {
					res.Failf("%s: wrote %v (sign bit %v) through the view, the parent holds sign bit %v", what, z, math.Signbit(z), math.Signbit(model[pos].F))
					return
				}
			}
			res.Class("signedZeroThroughView")
		}
		if C >= 2 && (c.Ch != 1 || i >= 1) {
			res.Class("beyondSuiteCase")
		}
		if c.A > 0 {
			res.Class("offsetParent")
		}
		if pos >= 1<<16 {
			res.Class("positionBeyond65536")
		}
	}
	if parent.Hdr() != ph {
		res.Failf("parent header changed to %+v", parent.Hdr())
	}
	return
}

func FP(c *Case) uint64 {
	h := kit.NewHasher()
	h.Str(c.T)
	h.Ints([]int{c.C, c.Kr, c.A, c.B, c.Ch, c.Fix, c.Grow, c.GrownSrc, c.Pre})
	h.Ints(c.Idx)
	return h.Sum()
}

func Gen(t *rapid.T) *Case {
	c := &Case{T: rapid.SampledFrom(names).Draw(t, "type"), C: rapid.IntRange(1, 8).Draw(t, "channels")}
	c.Kr, c.A, c.B = kit.GenWindow(t, "p", 2000)
	c.Ch = rapid.IntRange(0, c.C-1).Draw(t, "ch")
	c.Fix = kit.GenFix(t, "fix", c.C)
	if rapid.IntRange(0, 2).Draw(t, "preSel") == 0 {
		c.Pre = rapid.IntRange(1, 2).Draw(t, "pre")
	}
	if c.C >= 2 && rapid.IntRange(0, 5).Draw(t, "grownSel") == 0 {
		c.Kr, c.B = 0, 0
		c.A = rapid.IntRange(0, c.C-1).Draw(t, "grownPre")
		c.GrownSrc = rapid.IntRange(1, 50).Draw(t, "grownSrc")
		return c
	}
	if rapid.IntRange(0, 2).Draw(t, "growSel") == 0 {
		c.Grow = rapid.IntRange(1, 2*(c.Kr-c.B)+3).Draw(t, "grow")
	}
	if c.Grow == 0 && kit.Chance(t, "long", 1, 250) {
		// a long parent: interleaved positions beyond 2^16 (2^17 rarely), probed around those boundaries and at the end
		total := rapid.SampledFrom([]int{66000, 70001, 132000}).Draw(t, "longSamples")
		c.Kr = total / c.C
		c.A = rapid.IntRange(0, 2).Draw(t, "longA")
		c.B = c.Kr - rapid.IntRange(0, 2).Draw(t, "longSpare")
		c.Fix, c.Pre = 0, 0
		for _, p := range []int{65536, 131072} {
			i := p/c.C - c.A
			for d := -1; d <= 1; d++ {
				if i+d >= 0 && i+d < c.B-c.A {
					c.Idx = append(c.Idx, i+d)
				}
			}
		}
		c.Idx = append(c.Idx, c.B-c.A-1, rapid.IntRange(0, c.B-c.A-1).Draw(t, "longIdx"))
		return c
	}
	if fr := c.B - c.A; fr > 24 {
		n := rapid.IntRange(1, 24).Draw(t, "nidx")
		for k := 0; k < n; k++ {
			c.Idx = append(c.Idx, rapid.IntRange(0, fr-1).Draw(t, "idx"))
		}
	}
	return c
}

var Oracle = kit.Oracle[Case]{Property: Property, Gen: Gen, Check: Check, FP: FP}

// checkMoved: the parent was moved to new storage by a growing Append after the
// view was taken. The reference is the parent itself: the view must read the
// parent's samples and a write through the view must change exactly one of them.
func checkMoved(c *Case, res *kit.Result, parent kit.AnyBuf, view kit.AnyChan, frames int) kit.Result {
	return checkMovedN(c, res, parent, view, frames)
}

// checkMovedN probes indices 0..frames-1 of the view against the parent itself.
func checkMovedN(c *Case, res *kit.Result, parent kit.AnyBuf, view kit.AnyChan, frames int) kit.Result {
	C := c.C
	if view.Channels() != 1 || view.Length() != parent.Hdr().Length || view.Capacity() != parent.Hdr().Capacity {
		res.Failf("after the parent grew: view reports channels=%d length=%d capacity=%d, parent has length %d capacity %d", view.Channels(), view.Length(), view.Capacity(), frames, parent.Hdr().Capacity)
		return *res
	}
	idx := c.Idx
	if len(idx) == 0 {
		for i := 0; i < frames; i++ {
			idx = append(idx, i)
		}
	}
	model := parent.Snap()
	for _, i := range idx {
		if i < 0 || i >= frames {
			continue
		}
		pos := C*i + c.Ch
		what := fmt.Sprintf("%d-channel parent moved to new storage after the view of channel %d was taken, index %d", C, c.Ch, i)
		if got := view.Sample(i); !kit.SameVal(got, model[pos]) {
			res.Failf("%s: Sample returned %s, the parent's sample is %s", what, got, model[pos])
			return *res
		}
		for _, arg := range []int{c.Ch, 0, C - 1} {
			if bi := view.BufferIndex(arg, i); bi != pos {
				res.Failf("%s: BufferIndex(%d,%d) = %d, want %d", what, arg, i, bi, pos)
				return *res
			}
		}
		nv := probeVal(c.T, i+c.Ch)
		view.SetSample(i, nv)
		model[pos] = parent.Get(pos)
		if model[pos].String() != nv.String() {
			res.Failf("%s: wrote %s through the view, the parent holds %s", what, nv, model[pos])
			return *res
		}
		if d := kit.DiffVals("parent after SetSample through the view", parent.Snap(), model); d != "" {
			res.Failf("%s: %s", what, d)
			return *res
		}
		// and the other direction: a write to the parent is seen through the view
		pv := kit.IV(int64(31 + (i*3+c.Ch)%60))
		parent.Set(pos, pv)
		model[pos] = parent.Get(pos)
		if back := view.Sample(i); !kit.SameVal(back, model[pos]) {
			res.Failf("%s: wrote %s to the parent, the view reads %s", what, pv, back)
			return *res
		}
	}
	return *res
}
