package c14

import (
	"testing"

	"verif/harness/kit"
)

func TestRegress(t *testing.T) { Oracle.Regress(t) }
func TestRapid(t *testing.T)   { Oracle.Rapid(t) }
func TestReplay(t *testing.T)  { Oracle.Replay(t) }
func FuzzC14(f *testing.F)     { Oracle.Fuzz(f) }

func TestSweep(t *testing.T) {
	env := kit.GetEnv(Property)
	rec := kit.NewRecorder(env, "sweep")
	defer func() { rec.Flush(!t.Failed()) }()
	maxK := env.Pick(6, 9)
	// long parents: interleaved positions on both sides of 2^16 and 2^17
	for ti, tn := range names {
		for _, C := range []int{1, 2, 8, 3 + ti%5} {
			for _, total := range []int{65600, 131200} {
				K := total / C
				c := &Case{T: tn, C: C, Kr: K, A: ti % 2, B: K, Ch: (ti + C) % C}
				for _, p := range []int{65536, 131072} {
					for d := -1; d <= 1; d++ {
						if i := p/C - c.A + d; i >= 0 && i < c.B-c.A {
							c.Idx = append(c.Idx, i)
						}
					}
				}
				c.Idx = append(c.Idx, 0, c.B-c.A-1)
				Oracle.One(t, env, rec, "sweep", c)
			}
		}
	}
	for _, tn := range names {
		for C := 1; C <= 8; C++ {
			for K := 0; K <= maxK; K++ {
				for a := 0; a <= K; a++ {
					for b := a; b <= K; b++ {
						for ch := 0; ch < C; ch++ {
							Oracle.One(t, env, rec, "sweep", &Case{T: tn, C: C, Kr: K, A: a, B: b, Ch: ch, Fix: (a + ch) % 3})
							Oracle.One(t, env, rec, "sweep", &Case{T: tn, C: C, Kr: K, A: a, B: b, Ch: ch, Fix: (a + ch) % 3, Pre: 1 + (a+b+ch)%2})
							if C <= 4 && K <= 4 {
								for _, grow := range []int{1, K - b + 1} { // in place if there is spare capacity, and beyond it
									Oracle.One(t, env, rec, "sweep", &Case{T: tn, C: C, Kr: K, A: a, B: b, Ch: ch, Fix: (b + ch) % 3, Grow: grow})
								}
							}
						}
					}
				}
			}
		}
	}
	// parents produced by a growing Append of partial frames
	for _, tn := range names {
		for C := 2; C <= 8; C++ {
			for pre := 0; pre < C; pre += 1 + C/4 {
				for srcN := 1; srcN <= 3*C+2; srcN += 1 + C/5 {
					for ch := 0; ch < C; ch++ {
						Oracle.One(t, env, rec, "sweep", &Case{T: tn, C: C, A: pre, Ch: ch, GrownSrc: srcN})
					}
				}
			}
		}
	}
	rec.Exhaustive("13 types x C 1..8 x roots <=6(9) frames x all frame-aligned windows x every channel x every index", true)
}
