package c08

import (
	"math"
	"runtime"
	"sync"
	"sync/atomic"
	"testing"

	"verif/harness/kit"
	"verif/harness/numkit"
)

func TestRegress(t *testing.T) { Oracle.Regress(t) }
func TestRapid(t *testing.T)   { Oracle.Rapid(t) }
func TestReplay(t *testing.T)  { Oracle.Replay(t) }
func FuzzC08(f *testing.F)     { Oracle.Fuzz(f) }

func vals(xs []float64) []kit.Val {
	out := make([]kit.Val, len(xs))
	for i, x := range xs {
		out[i] = kit.FV(x)
	}
	return out
}

// TestSweep: the boundary-dense float set for all 22 instantiations, and in the
// thorough tier every float32 bit pattern, in numeric order, for the 11
// float32-source instantiations.
func TestSweep(t *testing.T) {
	env := kit.GetEnv(Property)
	rec := kit.NewRecorder(env, "sweep")
	defer func() { rec.Flush(!t.Failed()) }()
	longOnes := 0
	for _, e := range Pairs {
		Oracle.One(t, env, rec, "sweep", &Case{S: e.S.Name, D: e.D.Name, Xs: vals(Bounds(e))})
		Oracle.One(t, env, rec, "sweep", &Case{S: e.S.Name, D: e.D.Name, Xs: vals(Bounds(e)), Pad: 20000, Fix: 1})
		Oracle.One(t, env, rec, "sweep", &Case{S: e.S.Name, D: e.D.Name, Xs: vals(Bounds(e)), Fix: 2})
		for _, ch := range []int{2, 3, 8} {
			Oracle.One(t, env, rec, "sweep", &Case{S: e.S.Name, D: e.D.Name, Xs: vals(Bounds(e)), Ch: ch})
		}
		// long and wide at once: more channels than 8 and more samples than 2^15 / 2^16
		Oracle.One(t, env, rec, "sweep", &Case{S: e.S.Name, D: e.D.Name, Xs: vals(Bounds(e)), Pad: 40000, Ch: 12})
		Oracle.One(t, env, rec, "sweep", &Case{S: e.S.Name, D: e.D.Name, Xs: vals(Bounds(e)), Pad: 70001, Ch: 64, Fix: 1})
		if longOnes++; longOnes%4 == 1 { // every fourth instantiation: one call converting more than 2^17 samples
			Oracle.One(t, env, rec, "sweep", &Case{S: e.S.Name, D: e.D.Name, Xs: vals(Bounds(e)), Pad: 150001, Ch: 2})
		}
		Oracle.One(t, env, rec, "sweep", &Case{S: e.S.Name, D: e.D.Name, Xs: vals(Bounds(e)), Fix: 3}) // buffers recycled through a pool
		Oracle.One(t, env, rec, "sweep", &Case{S: e.S.Name, D: e.D.Name, Xs: vals(Bounds(e)), Fix: 4}) // buffers grown out of an empty window by Append
		Oracle.One(t, env, rec, "sweep", &Case{S: e.S.Name, D: e.D.Name, Xs: vals(Bounds(e)), Fix: 5}) // the source was the destination of a conversion before, converted through a window cut then
		Oracle.One(t, env, rec, "sweep", &Case{S: e.S.Name, D: e.D.Name, Xs: vals(Bounds(e)), Fix: 6}) // source two frames longer than the destination
		Oracle.One(t, env, rec, "sweep", &Case{S: e.S.Name, D: e.D.Name, Xs: vals(Bounds(e)), Fix: 7}) // destination two frames longer than the source
		Oracle.One(t, env, rec, "sweep", &Case{S: e.S.Name, D: e.D.Name, Xs: vals(Bounds(e)), Fix: 10}) // output in pieces: two adjacent destination windows, the source goes on beyond the first
		Oracle.One(t, env, rec, "sweep", &Case{S: e.S.Name, D: e.D.Name, Xs: vals(Bounds(e)), Fix: 8}) // the destination buffer is shared with every other instantiation of this destination type
		Oracle.One(t, env, rec, "sweep", &Case{S: e.S.Name, D: e.D.Name, Xs: vals(Bounds(e)), Fix: 9}) // the source was converted into a shorter destination before
		if e.S.Bits == 64 {
			// float32-exact inputs at every quantisation step of 8-bit (and a stride of 16-bit) destinations, each with its float64 neighbours
			d := e.D.Bits
			var xs []float64
			step := int64(1)
			if d > 8 {
				step = 97
			}
			if d <= 16 {
				for k := numkit.Lo(d); k <= numkit.Hi(d); k += step {
					fs := float64(numkit.Hi(d))
					if k < 0 {
						fs = -float64(numkit.Lo(d))
					}
					x := float64(float32(float64(k) / fs))
					xs = append(xs, x, math.Nextafter(x, 2), math.Nextafter(x, -2))
				}
				Oracle.One(t, env, rec, "sweep", &Case{S: e.S.Name, D: e.D.Name, Xs: vals(xs)})
			}
		}
		for _, x := range []float64{0.5, -0.5, 1, -1, 2, -2, 0} { // single-sample buffers
			Oracle.One(t, env, rec, "sweep", &Case{S: e.S.Name, D: e.D.Name, Xs: vals([]float64{x})})
		}
		if e.S.Bits != 32 || !env.Thorough() {
			continue
		}
		var mu sync.Mutex
		var bad []float64
		var nans, evals atomic.Int64
		numkit.Parallel(1<<32, 1<<20, runtime.NumCPU(), func(lo, hi uint64) bool {
			blk := e.NewBlock()
			start := lo
			if lo > 0 {
				start-- // overlap by one for the order check across chunks
			}
			xs := make([]float64, 0, hi-start)
			for i := start; i < hi; i++ {
				f := numkit.OrderedFloat32(i)
				if f != f {
					nans.Add(1)
					continue
				}
				xs = append(xs, float64(f))
			}
			if len(xs) == 0 {
				return true
			}
			out := make([]int64, len(xs))
			blk(nil, xs, out, nil)
			evals.Add(int64(len(xs)))
			for i, x := range xs {
				if Point(e, x, out[i]) != "" || (i > 0 && out[i] < out[i-1]) {
					mu.Lock()
					if i > 0 {
						bad = append(bad, xs[i-1])
					}
					bad = append(bad, x)
					mu.Unlock()
					return false
				}
			}
			return true
		})
		if len(bad) > 0 {
			if len(bad) > 2 {
				bad = bad[:2]
			}
			Oracle.One(t, env, rec, "sweep", &Case{S: e.S.Name, D: e.D.Name, Xs: vals(bad)})
			t.Fatalf("HARNESS-ERROR: sweep violation at %v in %s not reproduced by the case oracle", bad, e)
		}
		n := int64(1<<32) - 2*(1<<23-1)
		rec.Bulk("exhaustiveFloat32:"+e.D.Name, n, n-7)
		rec.Note("float32_nan_patterns_skipped_"+e.D.Name, 2*(1<<23-1))
		rec.Sample(map[string]any{"s": e.S.Name, "d": e.D.Name, "xs": "every non-NaN float32 bit pattern in increasing numeric order", "count": n, "first": math.Inf(-1), "last": math.Inf(1)})
	}
	rec.Exhaustive("boundary-dense float set x 22 instantiations", true)
	rec.Exhaustive("every non-NaN float32 bit pattern x 11 float32-source instantiations", env.Thorough())
}
