// Package c08 decides property C08: floating-to-fixed conversion clips, then
// maps [-1,1] linearly (within one quantisation step), monotonically.
package c08

import (
	"fmt"
	"math"
	"sort"

	"pgregory.net/rapid"
	"verif/harness/convtab"
	"verif/harness/kit"
	"verif/harness/numkit"
)

const Property = "C08"

// Case: floating inputs Xs (no NaN) converted from S (float32|float64) to the
// integer type D.
type Case struct {
	S   string    `json:"s"`
	D   string    `json:"d"`
	Xs  []kit.Val `json:"xs"`
	Pad int       `json:"pad,omitempty"` // the inputs are repeated cyclically up to this buffer length
	Fix int       `json:"fix,omitempty"` // source construction order, see convtab.Entry.NewBlockFix
	Ch  int       `json:"ch,omitempty"`  // channel count of the buffers (0 = 1): the values are interleaved over several channels
}

var Pairs = convtab.Select("FloatAsSigned", "FloatAsUnsigned")

// Point applies the point oracle: x converted to a d-bit format gave amplitude A.
func Point(e *convtab.Entry, x float64, A int64) string {
	d := e.D.Bits
	switch {
	case x >= 1:
		if A != numkit.Hi(d) {
			return fmt.Sprintf("%s: input %g (>= 1) gives amplitude %d, want the highest code %d", e, x, A, numkit.Hi(d))
		}
	case x <= -1:
		if A != numkit.Lo(d) {
			return fmt.Sprintf("%s: input %g (<= -1) gives amplitude %d, want the lowest code %d", e, x, A, numkit.Lo(d))
		}
	case x == 0:
		if A != 0 {
			return fmt.Sprintf("%s: input %g gives amplitude %d, want the zero-amplitude code", e, x, A)
		}
	default:
		if !numkit.WithinOneStep(x, d, A) {
			fs := float64(numkit.Hi(d))
			if x < 0 {
				fs = -float64(numkit.Lo(d))
			}
			return fmt.Sprintf("%s: input %g gives amplitude %d, more than one step from input x full scale = %.6g", e, x, A, x*fs)
		}
	}
	return ""
}

func Check(c *Case) (res kit.Result) {
	e := convtab.Lookup(c.S, c.D)
	if e == nil || e.S.Kind != kit.Float || e.D.Kind == kit.Float || len(c.Xs) == 0 || len(c.Xs) > 1<<20 {
		return
	}
	xs := make([]float64, len(c.Xs))
	for i, v := range c.Xs {
		if v.K != 'f' || v.F != v.F {
			return // NaN is outside the domain
		}
		if e.S.Bits == 32 && float64(float32(v.F)) != v.F {
			return
		}
		xs[i] = v.F
	}
	if c.Pad < 0 || c.Pad > 1<<20 || c.Fix < 0 || c.Fix > convtab.MaxFix || c.Ch < 0 || c.Ch > 64 {
		return kit.Result{}
	}
	if c.Pad > len(xs) {
		res.Class("paddedToLongBuffer")
	}
	xs = kit.PadFloats(xs, c.Pad)
	sort.Float64s(xs)
	out := make([]int64, len(xs))
	if p, v := kit.Try(func() { e.NewBlockShape(c.Fix, c.Ch)(nil, xs, out, nil) }); p {
		res.Failf("%s panicked: %v", e, v)
		return
	}
	// the same inputs in descending order, and each input repeated around out-of-range
	// inputs (x, +2, x, -Inf, x, 1, x): the code of x must be the same everywhere
	if len(xs) <= 4096 {
		n := len(xs)
		seq := make([]float64, 0, 8*n)
		for i := n - 1; i >= 0; i-- {
			seq = append(seq, xs[i])
		}
		for _, x := range xs {
			seq = append(seq, x, 2, x, math.Inf(-1), x, 1, x)
		}
		sout := make([]int64, len(seq))
		if p, v := kit.Try(func() { e.NewBlockShape(c.Fix, c.Ch)(nil, seq, sout, nil) }); p {
			res.Failf("%s panicked: %v", e, v)
			return
		}
		for i := 0; i < n; i++ {
			if sout[i] != out[n-1-i] {
				res.Failf("%s: input %g gives amplitude %d in an ascending buffer but %d in a descending one (preceded by %g)", e, xs[n-1-i], out[n-1-i], sout[i], seq[kit.Max(i-1, 0)])
				return
			}
		}
		for i, x := range xs {
			for _, k := range []int{0, 2, 4, 6} {
				if got := sout[n+7*i+k]; got != out[i] {
					res.Failf("%s: input %g gives amplitude %d on its own but %d when it follows the input %g in the same buffer", e, x, out[i], got, seq[n+7*i+k-1])
					return
				}
			}
		}
	}
	for i, x := range xs {
		if m := Point(e, x, out[i]); m != "" {
			res.Failf("%s", m)
			return
		}
		if i > 0 && out[i] < out[i-1] {
			res.Failf("%s: larger input gives a smaller code: %g -> amplitude %d but %g -> amplitude %d", e, xs[i-1], out[i-1], x, out[i])
			return
		}
		ax := math.Abs(x)
		switch {
		case math.IsInf(x, 0):
			res.Class("infinite")
		case ax >= 1.5:
			res.Class("farOutOfRange")
		case ax != 1 && math.Abs(ax-1) <= 4*math.Abs(math.Nextafter(1, 2)-1):
			res.Class("adjacentToOne")
		}
	}
	if e.D.Bits < 64 {
		res.Class("narrowDestination")
	}
	return
}

func FP(c *Case) uint64 {
	h := kit.NewHasher()
	h.Str(c.S)
	h.Str(c.D)
	h.Int(len(c.Xs))
	h.Int(c.Pad)
	h.Int(c.Fix)
	h.Int(c.Ch)
	for _, v := range c.Xs {
		h.U64(math.Float64bits(v.F))
	}
	return h.Sum()
}

var (
	BFloat32 = kit.BoundaryFloats(true)
	BFloat64 = kit.BoundaryFloats(false)
)

func Bounds(e *convtab.Entry) []float64 {
	if e.S.Bits == 32 {
		return BFloat32
	}
	return BFloat64
}

func Gen(t *rapid.T) *Case {
	e := Pairs[rapid.IntRange(0, len(Pairs)-1).Draw(t, "inst")]
	c := &Case{S: e.S.Name, D: e.D.Name}
	c.Pad = kit.GenPad(t)
	c.Fix = rapid.IntRange(0, convtab.MaxFix).Draw(t, "fix")
	c.Ch = kit.GenNumCh(t, c.Pad)
	n := rapid.IntRange(1, 16).Draw(t, "n")
	is32 := e.S.Bits == 32
	for i := 0; i < n; i++ {
		var x float64
		if rapid.IntRange(0, 3).Draw(t, "quantSel") == 0 {
			// close to a quantisation boundary of the destination format: (k + {0,.5}) / FS, nudged by a few ulps
			d := e.D.Bits
			k := kit.GenAmp(t, d, c07amps(d))
			fs := float64(numkit.Hi(d))
			if k < 0 {
				fs = -float64(numkit.Lo(d))
			}
			x = (float64(k) + 0.5*float64(rapid.IntRange(-1, 1).Draw(t, "half"))) / fs
			for u := rapid.IntRange(0, 2).Draw(t, "ulps"); u > 0; u-- {
				x = math.Nextafter(x, float64(rapid.SampledFrom([]int{-2, 2}).Draw(t, "dir")))
			}
			if is32 {
				x = float64(float32(x))
			} else if rapid.Bool().Draw(t, "f32exact") {
				// a float64 input that happens to be exactly representable in float32, together with
				// its two float64 neighbours: the code must not depend on how "short" the input is
				x = float64(float32(x))
				c.Xs = append(c.Xs, kit.FV(math.Nextafter(x, 2)), kit.FV(math.Nextafter(x, -2)))
			}
		} else {
			x = kit.GenFloat(t, is32, Bounds(e), false)
		}
		c.Xs = append(c.Xs, kit.FV(x))
	}
	return c
}

var ampCache = map[int][]int64{}

func c07amps(d int) []int64 {
	if a, ok := ampCache[d]; ok {
		return a
	}
	ampCache[d] = kit.BoundaryAmps(d)
	return ampCache[d]
}

func init() {
	for _, d := range []int{8, 16, 32, 64} {
		c07amps(d)
	}
}

var Oracle = kit.Oracle[Case]{Property: Property, Gen: Gen, Check: Check, FP: FP}
