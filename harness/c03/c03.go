// Package c03 decides property C03: Append concatenates per channel, in place
// whenever capacity allows, otherwise on new storage leaving old views alone.
package c03

import (
	"fmt"
	"math"

	"pgregory.net/rapid"
	"pipelined.dev/signal"
	"verif/harness/kit"
)

const Property = "C03"

// Src describes the source of one Append.
type Src struct {
	Kind string `json:"kind"` // sep: own storage | root: window of the destination's original root | self: the destination header itself
	Kr   int    `json:"kr,omitempty"`
	A    int    `json:"a,omitempty"`
	B    int    `json:"b,omitempty"`
}

// Case: destination = frame-aligned window [A,B) of a root with Kr frames.
type Case struct {
	T    string `json:"t"`
	C    int    `json:"c"`
	Kr   int    `json:"kr"`
	A    int    `json:"a"`
	B    int    `json:"b"`
	Srcs []Src  `json:"srcs"`
	// Many (instead of Srcs, "repeated appends"): this many appends of short separate sources
	// (1..3 frames, in rotation) onto one destination header that starts with A frames of
	// length and Kr frames of capacity, see marathon.
	Many int `json:"many,omitempty"`
	// Pooled: the destination's root comes out of a pool allocator (after one round trip through it)
	Pooled bool `json:"pooled,omitempty"`
}

// marathon: one destination header over tens of thousands of appends. The length grows by the
// source's length every time, the capacity stays a whole number of frames at least the length,
// it changes only when the old one did not suffice, and the contents at the end are all the
// sources in order.
func marathon[T signal.SignalTypes](c *Case) (res kit.Result) {
	C := c.C
	dst := signal.Alloc[T](signal.Allocator{Channels: C, Length: c.A, Capacity: c.Kr})
	if c.Pooled {
		pool := signal.PoolAlloc[T](signal.Allocator{Channels: C, Length: c.A, Capacity: c.Kr})
		dst = pool.Get()
	}
	model := make([]T, C*c.A, C*c.A+C*2*c.Many)
	var srcs [3]*signal.Buffer[T]
	for i := range srcs {
		srcs[i] = signal.Alloc[T](signal.Allocator{Channels: C, Length: i + 1, Capacity: i + 1})
	}
	moves := 0
	for i := 0; i < c.Many; i++ {
		src := srcs[i%3]
		for k := 0; k < src.Len(); k++ {
			src.SetSample(k, T(1+(i+k)%100))
			model = append(model, T(1+(i+k)%100))
		}
		capBefore, lenBefore := dst.Cap(), dst.Len()
		if p, v := kit.Try(func() { dst.Append(src) }); p {
			res.Failf("append #%d of %d frames onto one header (now %d frames, capacity %d): panic: %v", i+1, src.Length(), lenBefore/C, capBefore/C, v)
			return
		}
		if dst.Len() != len(model) || dst.Length() != len(model)/C {
			res.Failf("after append #%d: length %d samples / %d frames, want %d / %d", i+1, dst.Len(), dst.Length(), len(model), len(model)/C)
			return
		}
		if cp := dst.Cap(); cp < dst.Len() || cp%C != 0 || dst.Capacity() != cp/C {
			res.Failf("after append #%d: capacity %d samples (Capacity() %d) with length %d and %d channels: not a whole number of frames that is at least the length", i+1, cp, dst.Capacity(), dst.Len(), C)
			return
		}
		if fit := capBefore >= lenBefore+src.Len(); fit && dst.Cap() != capBefore {
			res.Failf("append #%d fitted the old capacity (%d samples, %d needed) and yet the capacity is now %d", i+1, capBefore, lenBefore+src.Len(), dst.Cap())
			return
		} else if !fit {
			moves++
		}
		if i%4096 == 0 || i == c.Many-1 { // the newest samples now, everything at the end
			for k := lenBefore; k < len(model); k++ {
				if !kit.Same(dst.Sample(k), model[k]) {
					res.Failf("after append #%d: sample %d reads %s, want %s", i+1, k, kit.Str(dst.Sample(k)), kit.Str(model[k]))
					return
				}
			}
		}
	}
	for k := range model {
		if !kit.Same(dst.Sample(k), model[k]) {
			res.Failf("after %d appends onto one header: sample %d reads %s, want %s", c.Many, k, kit.Str(dst.Sample(k)), kit.Str(model[k]))
			return
		}
	}
	res.Class("repeatedAppendsOntoOneHeader")
	if c.Many >= 1<<16 {
		res.Class("moreThan65536AppendsOntoOneHeader")
	}
	if moves >= 2 {
		res.Class("severalMovesToNewStorage")
	}
	return
}

var marathons = map[string]func(*Case) kit.Result{}

var table = map[string]func(*Case) kit.Result{}

func reg[T signal.SignalTypes](n string) { table[n] = run[T]; marathons[n] = marathon[T] }

func init() {
	reg[int]("int")
	reg[int8]("int8")
	reg[int16]("int16")
	reg[int32]("int32")
	reg[int64]("int64")
	reg[uint]("uint")
	reg[uint8]("uint8")
	reg[uint16]("uint16")
	reg[uint32]("uint32")
	reg[uint64]("uint64")
	reg[uintptr]("uintptr")
	reg[float32]("float32")
	reg[float64]("float64")
	reg[kit.NInt16]("NInt16")
	reg[kit.NUint8]("NUint8")
	reg[kit.NFloat32]("NFloat32")
}

func Check(c *Case) kit.Result {
	f, ok := table[c.T]
	if !ok || c.C < 1 || c.Kr < 0 || c.A < 0 || c.A > c.B || c.B > c.Kr || c.C*c.Kr > 1<<21 || len(c.Srcs) > 8 {
		return kit.Result{}
	}
	if c.Many != 0 {
		if c.Many < 0 || c.Many > 1<<18 || c.C > 8 || c.A > c.Kr || len(c.Srcs) != 0 {
			return kit.Result{}
		}
		return marathons[c.T](c)
	}
	for _, s := range c.Srcs {
		if s.Kind != "self" && (s.A < 0 || s.A > s.B) {
			return kit.Result{}
		}
		if s.Kind == "sep" && (s.B > s.Kr || c.C*s.Kr > 1<<20) {
			return kit.Result{}
		}
		if s.Kind == "root" && s.B > c.Kr {
			return kit.Result{}
		}
		if s.Kind != "sep" && s.Kind != "root" && s.Kind != "self" {
			return kit.Result{}
		}
	}
	return f(c)
}

// storage is a backing array the case knows about: an alias view that sees
// every position of it from the destination's origin, and its model.
type storage[T signal.SignalTypes] struct {
	view  *signal.Buffer[T]
	model []T
}

func (s *storage[T]) diff(what string) string {
	got := make([]T, s.view.Len())
	for i := range got {
		got[i] = s.view.Sample(i)
	}
	return kit.DiffSlice(what, got, s.model)
}

func run[T signal.SignalTypes](c *Case) (res kit.Result) {
	C := c.C
	root := kit.Root[T](C, c.Kr)
	if c.Pooled {
		root = kit.RootPooled[T](C, c.Kr)
		res.Class("destinationFromAPool")
	}
	rootSt := &storage[T]{view: root, model: kit.RootModel[T](C, c.Kr)}
	dst := root.Slice(c.A, c.B)
	sibling := root.Slice(c.A, c.Kr) // another live view covering the destination's spare capacity
	cur := rootSt                    // storage the destination currently lives in
	off := C * c.A                   // destination offset inside cur.model
	ln := C * (c.B - c.A)
	old := []*storage[T]{} // storages the destination has left
	moved := false
	stamp := 0

	for ai, s := range c.Srcs {
		what := fmt.Sprintf("append %d (%s)", ai, s.Kind)
		var src *signal.Buffer[T]
		var srcSt *storage[T]
		var srcOff int
		switch s.Kind {
		case "self":
			src = dst
		case "root":
			if !moved && s.A != s.B && C*s.B > off+ln {
				return kit.Result{} // readable window overlaps the destination's spare capacity: outside the domain
			}
			src = root.Slice(s.A, s.B)
			srcSt, srcOff = rootSt, C*s.A
		case "sep":
			sr := kit.Root[T](C, s.Kr)
			m := kit.RootModel[T](C, s.Kr)
			for p := range m { // make the source's contents different from the destination root's
				stamp++
				v := T(70 + stamp%50)
				if stamp%4 == 2 {
					v = kit.As[T](kit.FV(math.Copysign(0, -1))) // -0.0 for floating types, 0 for integer ones
				}
				if stamp%16 == 7 && kit.KindOf[T]() == kit.Float { // a subnormal, an infinity, a fraction
					f := []float64{float64(math.SmallestNonzeroFloat32) * 5, math.Inf(-1), 0.3125, -math.SmallestNonzeroFloat64}[(stamp/16)%4]
					if kit.BitsOf[T]() == 32 && f == -math.SmallestNonzeroFloat64 {
						f = -float64(math.SmallestNonzeroFloat32)
					}
					v = kit.As[T](kit.FV(f))
				}
				sr.SetSample(p, v)
				m[p] = v
			}
			srcSt, srcOff = &storage[T]{view: sr, model: m}, C*s.A
			src = sr.Slice(s.A, s.B)
		}
		// source contents before the call
		var n int
		var add []T
		if s.Kind == "self" {
			n = ln
			add = append([]T(nil), cur.model[off:off+ln]...)
		} else {
			n = C * (s.B - s.A)
			add = append([]T(nil), srcSt.model[srcOff:srcOff+n]...)
		}
		srcHdr := kit.HdrOf(src)
		oldLen, oldCap := ln, len(cur.model)-off
		if h := kit.HdrOf(dst); h.Len != oldLen || h.Cap != oldCap {
			res.Failf("%s: destination Len/Cap %d/%d before the call, model %d/%d", what, h.Len, h.Cap, oldLen, oldCap)
			return
		}
		oldContents := append([]T(nil), cur.model[off:off+ln]...)

		if p, v := kit.Try(func() { dst.Append(src) }); p {
			res.Failf("%s: panic: %v (dst len %d cap %d, src len %d, %d channels)", what, v, oldLen, oldCap, n, C)
			return
		}

		h := kit.HdrOf(dst)
		if m := kit.RawMismatch(dst, h); m != "" {
			res.Failf("%s: destination %s", what, m)
			return
		}
		if h.Len != oldLen+n {
			res.Failf("%s: destination Len %d, want %d (+%d)", what, h.Len, oldLen+n, n)
			return
		}
		if h.Cap%C != 0 || h.Cap < h.Len {
			res.Failf("%s: destination Cap %d is not a whole number of %d-channel frames >= Len %d", what, h.Cap, C, h.Len)
			return
		}
		if h.Length != (oldLen+n)/C || h.Capacity != h.Cap/C || h.Channels != C || h.BitDepth != kit.BitsOf[T]() {
			res.Failf("%s: destination header %+v inconsistent", what, h)
			return
		}
		// contents: old followed by the source's
		for k := 0; k < oldLen+n; k++ {
			var want T
			if k < oldLen {
				want = oldContents[k]
			} else {
				want = add[k-oldLen]
			}
			if got := dst.Sample(k); !kit.Same(got, want) {
				res.Failf("%s: destination sample %d (channel %d, frame %d) is %s, want %s", what, k, k%C, k/C, kit.Str(got), kit.Str(want))
				return
			}
		}
		if s.Kind != "self" {
			if hs := kit.HdrOf(src); hs != srcHdr {
				res.Failf("%s: source header changed to %+v, was %+v", what, hs, srcHdr)
				return
			}
		}
		if n > 0 && s.Kind == "self" {
			res.Class("selfAppend")
		}
		if ai >= 1 {
			res.Class("repeated")
		}
		if oldCap >= oldLen+n {
			// in place: capacity unchanged, samples visible through every other view
			if h.Cap != oldCap {
				res.Failf("%s: capacity sufficed (%d >= %d) but Cap changed %d -> %d", what, oldCap, oldLen+n, oldCap, h.Cap)
				return
			}
			copy(cur.model[off+oldLen:], add)
			if !moved && n > 0 {
				// sibling = root.Slice(A, Kr) covers the appended region
				for k := 0; k < n; k++ {
					if got := sibling.Sample(oldLen + k); !kit.Same(got, add[k]) {
						res.Failf("%s: in-place append not visible through a sibling view: position %d reads %s, want %s", what, oldLen+k, kit.Str(got), kit.Str(add[k]))
						return
					}
				}
				res.Class("inPlaceSeenThroughOtherView")
			}
			if oldCap == oldLen+n && n > 0 {
				res.Class("exactFit")
			}
		} else {
			res.Class("growth")
			if oldCap == oldLen+n-C {
				res.Class("oneFrameShort")
			}
			if oldLen > 0 {
				res.Class("growthOfNonEmpty")
			}
			old = append(old, cur)
			var ext *signal.Buffer[T]
			if p, v := kit.Try(func() { ext = dst.Slice(0, dst.Capacity()) }); p {
				res.Failf("%s: after growth dst.Slice(0,Capacity) panicked: %v", what, v)
				return
			}
			ns := &storage[T]{view: ext, model: make([]T, ext.Len())}
			for i := range ns.model {
				ns.model[i] = ext.Sample(i)
			}
			// independence of the new storage: stamp all of it, the old storages must not move
			for i := range ns.model {
				ext.SetSample(i, T(121+i%5))
			}
			for oi, o := range old {
				if d := o.diff(fmt.Sprintf("storage %d the destination left", oi)); d != "" {
					res.Failf("%s: writing through the moved destination changed %s", what, d)
					return
				}
			}
			if s.Kind == "sep" {
				if d := srcSt.diff("the source's storage"); d != "" {
					res.Failf("%s: writing through the moved destination changed %s (destination and source share storage)", what, d)
					return
				}
			}
			for i := range ns.model {
				ext.SetSample(i, ns.model[i])
			}
			// and the other way round: writing the source must not show through the destination
			if s.Kind == "sep" {
				for i := range srcSt.model {
					srcSt.view.SetSample(i, T(119))
				}
				for i := range ns.model {
					if got := ext.Sample(i); !kit.Same(got, ns.model[i]) {
						res.Failf("%s: rewriting the source afterwards changed destination position %d to %s", what, i, kit.Str(got))
						return
					}
				}
				for i := range srcSt.model {
					srcSt.view.SetSample(i, srcSt.model[i])
				}
			}
			cur, off, moved = ns, 0, true
			// An unrelated buffer of the same element type now grows as well, needing about
			// as much storage as the destination just left behind: storage that was left
			// (and is still referenced by views) must not be handed to anybody else.
			left := old[len(old)-1]
			if fr := len(left.model) / C; fr >= 2 {
				other := kit.Root[T](C, fr/2)
				more := kit.Root[T](C, fr-fr/2)
				if p, v := kit.Try(func() { other.Append(more) }); p {
					res.Failf("%s: growing an unrelated buffer afterwards panicked: %v", what, v)
					return
				}
				wide := other.Slice(0, other.Capacity())
				for i := 0; i < wide.Len(); i++ {
					wide.SetSample(i, T(126))
				}
				for oi, o := range old {
					if d := o.diff(fmt.Sprintf("storage %d the destination left", oi)); d != "" {
						res.Failf("%s: an unrelated buffer that grew afterwards (to %d samples) writes into it: %s", what, wide.Len(), d)
						return
					}
				}
				if d := cur.diff("the destination's new storage"); d != "" {
					res.Failf("%s: an unrelated buffer that grew afterwards shares it: %s", what, d)
					return
				}
				res.Class("unrelatedGrowthAfterwards")
			}
		}
		ln = oldLen + n
		// frame conditions: the destination's storage matches its model everywhere,
		// every storage it left is untouched, the source storage is untouched
		if d := cur.diff("destination storage"); d != "" {
			res.Failf("%s: %s", what, d)
			return
		}
		for oi, o := range old {
			if d := o.diff(fmt.Sprintf("storage %d the destination left", oi)); d != "" {
				res.Failf("%s: %s", what, d)
				return
			}
		}
		if !moved {
			if d := rootSt.diff("root storage"); d != "" {
				res.Failf("%s: %s", what, d)
				return
			}
		}
		if s.Kind == "sep" {
			if d := srcSt.diff("source storage"); d != "" {
				res.Failf("%s: %s", what, d)
				return
			}
		}
	}
	return
}

func FP(c *Case) uint64 {
	h := kit.NewHasher()
	h.Str(c.T)
	h.Ints([]int{c.C, c.Kr, c.A, c.B, len(c.Srcs), c.Many})
	if c.Pooled {
		h.Int(1)
	}
	for _, s := range c.Srcs {
		h.Str(s.Kind)
		h.Ints([]int{s.Kr, s.A, s.B})
	}
	return h.Sum()
}

var names = append(kit.BuiltinNames(), kit.SomeNamed...)

func Gen(t *rapid.T) *Case {
	c := &Case{T: rapid.SampledFrom(names).Draw(t, "type"), C: kit.GenChannels(t)}
	if kit.Chance(t, "marathon", 1, 400) {
		c.C = rapid.IntRange(1, 4).Draw(t, "cMany")
		c.Kr = rapid.IntRange(0, 40).Draw(t, "krMany")
		c.A = rapid.IntRange(0, c.Kr).Draw(t, "aMany")
		c.B = c.A
		c.Many = rapid.IntRange(300, 9000).Draw(t, "many")
		c.Pooled = rapid.Bool().Draw(t, "pooledMany")
		return c
	}
	c.Kr, c.A, c.B = kit.GenWindow(t, "d", 300)
	if c.C > 8 { // wide frames: keep the roots moderate, the interesting part is where the runtime's size classes fall
		c.Kr, c.A, c.B = kit.GenWindow(t, "dWide", 60)
	}
	ln, cp := c.B-c.A, c.Kr-c.A // frames
	moved := false
	n := rapid.IntRange(1, 4).Draw(t, "nappends")
	for i := 0; i < n; i++ {
		var s Src
		spare := cp - ln
		// how many frames to append, relative to the spare capacity
		frames := 0
		switch rapid.IntRange(0, 6).Draw(t, "fit") {
		case 0:
			frames = 0
		case 1:
			frames = spare // exactly fitting
		case 2:
			frames = spare + 1 // one frame short
		case 3:
			if spare > 0 {
				frames = rapid.IntRange(1, spare).Draw(t, "within")
			}
		case 4:
			frames = spare + rapid.IntRange(2, 60).Draw(t, "farTooSmall")
		default:
			frames = rapid.IntRange(0, 12).Draw(t, "frames")
		}
		switch k := rapid.IntRange(0, 5).Draw(t, "srcKind"); {
		case k == 0:
			s.Kind = "self"
			frames = ln
		case k <= 2:
			// a window of the original root that does not reach into the destination's spare capacity
			limit := c.Kr
			if !moved {
				limit = c.A + ln
			}
			s.Kind = "root"
			if frames > limit {
				frames = limit
			}
			s.B = rapid.IntRange(frames, limit).Draw(t, "srcB")
			s.A = s.B - frames
		default:
			s.Kind = "sep"
			s.A = rapid.IntRange(0, 3).Draw(t, "srcA")
			s.B = s.A + frames
			s.Kr = s.B + rapid.IntRange(0, 3).Draw(t, "srcSpare")
		}
		c.Srcs = append(c.Srcs, s)
		if ln+frames > cp {
			moved = true
			cp = ln + frames // unknown in reality; only used to steer later draws
		}
		ln += frames
		if ln > 2000 {
			break
		}
	}
	c.Pooled = rapid.IntRange(0, 3).Draw(t, "pooled") == 0
	return c
}

var Oracle = kit.Oracle[Case]{Property: Property, Gen: Gen, Check: Check, FP: FP}
