package c03

import (
	"testing"

	"verif/harness/kit"
)

func TestRegress(t *testing.T) { Oracle.Regress(t) }
func TestRapid(t *testing.T)   { Oracle.Rapid(t) }
func TestReplay(t *testing.T)  { Oracle.Replay(t) }
func FuzzC03(f *testing.F)     { Oracle.Fuzz(f) }

// TestSweep: all destinations/sources on a small grid, one and two appends.
func TestSweep(t *testing.T) {
	env := kit.GetEnv(Property)
	rec := kit.NewRecorder(env, "sweep")
	defer func() { rec.Flush(!t.Failed()) }()
	maxK := env.Pick(3, 4)
	types := []string{"int8", "uint16", "int32", "float32", "float64", "uint64"}
	for _, tn := range types {
		for C := 1; C <= 3; C++ {
			for K := 0; K <= maxK; K++ {
				for a := 0; a <= K; a++ {
					for b := a; b <= K; b++ {
						var srcs []Src
						srcs = append(srcs, Src{Kind: "self"})
						for f := 0; f <= K-a+2; f++ {
							srcs = append(srcs, Src{Kind: "sep", Kr: f + 1, A: 1, B: f + 1})
						}
						for sa := 0; sa <= b; sa++ {
							for sb := sa; sb <= b; sb++ {
								srcs = append(srcs, Src{Kind: "root", A: sa, B: sb})
							}
						}
						for _, s1 := range srcs {
							Oracle.One(t, env, rec, "sweep", &Case{T: tn, C: C, Kr: K, A: a, B: b, Srcs: []Src{s1}})
							for si, s2 := range []Src{{Kind: "self"}, {Kind: "sep", Kr: 1, A: 0, B: 1}, {Kind: "sep", Kr: 3, A: 0, B: 3}} {
								// every third pair on a destination whose root came out of a pool
								Oracle.One(t, env, rec, "sweep", &Case{T: tn, C: C, Kr: K, A: a, B: b, Srcs: []Src{s1, s2}, Pooled: (si+a+b)%3 == 0})
							}
						}
					}
				}
			}
		}
	}
	// very long appends (beyond 65536 samples), in place and growing
	for i, tn := range []string{"int8", "float32", "int64"} {
		C := 1 + i
		fr := (65536+7)/C + 1
		Oracle.One(t, env, rec, "sweep", &Case{T: tn, C: C, Kr: 2*fr + 5, A: 1, B: 3, Srcs: []Src{{Kind: "sep", Kr: fr + 1, A: 1, B: fr + 1}, {Kind: "sep", Kr: fr + 3, A: 0, B: fr + 3}}})
		Oracle.One(t, env, rec, "sweep", &Case{T: tn, C: C, Kr: fr, A: 0, B: fr, Srcs: []Src{{Kind: "self"}}})
	}
	// channel counts around 65536
	for _, C := range []int{255, 256, 257, 65535, 65536, 65537, 70001} {
		Oracle.One(t, env, rec, "sweep", &Case{T: "int8", C: C, Kr: 3, A: 0, B: 1, Srcs: []Src{{Kind: "sep", Kr: 2, A: 0, B: 2}, {Kind: "sep", Kr: 3, A: 0, B: 3}}})
	}
	// wide frames (16, 32, 64, 65 channels): growth lands on runtime size classes that need not be multiples of the frame
	for _, tn := range []string{"int8", "int32", "float64", "uint64"} {
		for _, C := range []int{16, 32, 64, 65} {
			for have := 0; have <= env.Pick(20, 40); have++ {
				for _, add := range []int{1, 2, 5, 10, 17} {
					Oracle.One(t, env, rec, "sweep", &Case{T: tn, C: C, Kr: have, A: 0, B: have, Srcs: []Src{{Kind: "sep", Kr: add, A: 0, B: add}}})
				}
			}
		}
	}
	// tens of thousands of appends onto one header (more than 2^16 once)
	for i, tn := range []string{"int16", "float64", "uint8", "NFloat32"} {
		many := []int{40000, 70000, 33000, 20000}[i]
		if !env.Thorough() && i >= 2 {
			many /= 4
		}
		Oracle.One(t, env, rec, "sweep", &Case{T: tn, C: 1 + i%3, Kr: i * 2, A: i, B: i, Many: many})
	}
	rec.Exhaustive("6 types x C<=3 x root<=3(4) frames x all destination windows x all admissible sources (self, separate 0..spare+2 frames, every root window before the spare region) x {none, self, 1-frame, 3-frame} second append", true)
}
