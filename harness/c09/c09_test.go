package c09

import (
	"runtime"
	"sync"
	"sync/atomic"
	"testing"

	"verif/harness/kit"
	"verif/harness/numkit"
)

func TestRegress(t *testing.T) { Oracle.Regress(t) }
func TestRapid(t *testing.T)   { Oracle.Rapid(t) }
func TestReplay(t *testing.T)  { Oracle.Replay(t) }
func FuzzC09(f *testing.F)     { Oracle.Fuzz(f) }

// TestSweep: every code of 8/16-bit sources (32-bit in the thorough tier) into
// float32 and float64, in amplitude order, with the round trips.
func TestSweep(t *testing.T) {
	env := kit.GetEnv(Property)
	rec := kit.NewRecorder(env, "sweep")
	defer func() { rec.Flush(!t.Failed()) }()
	longOnes := 0
	for _, e := range Pairs {
		ds := e.S.Bits
		Oracle.One(t, env, rec, "sweep", &Case{S: e.S.Name, D: e.D.Name, Amps: BAmps[ds]})
		for i, pad := range []int{1024, 4099} {
			Oracle.One(t, env, rec, "sweep", &Case{S: e.S.Name, D: e.D.Name, Amps: BAmps[ds], Pad: pad, Fix: 1 + i})
		}
		for _, ch := range []int{2, 3, 8} {
			Oracle.One(t, env, rec, "sweep", &Case{S: e.S.Name, D: e.D.Name, Amps: BAmps[ds], Ch: ch})
		}
		// long and wide at once: more channels than 8 and more samples than 2^15 / 2^16
		Oracle.One(t, env, rec, "sweep", &Case{S: e.S.Name, D: e.D.Name, Amps: BAmps[ds], Pad: 40000, Ch: 12})
		Oracle.One(t, env, rec, "sweep", &Case{S: e.S.Name, D: e.D.Name, Amps: BAmps[ds], Pad: 70001, Ch: 64, Fix: 1})
		if longOnes++; longOnes%8 == 1 { // every eighth pair: one call converting more than 2^17 samples
			Oracle.One(t, env, rec, "sweep", &Case{S: e.S.Name, D: e.D.Name, Amps: BAmps[ds], Pad: 150001, Ch: 2})
		}
		Oracle.One(t, env, rec, "sweep", &Case{S: e.S.Name, D: e.D.Name, Amps: BAmps[ds], Fix: 3}) // buffers recycled through a pool
		Oracle.One(t, env, rec, "sweep", &Case{S: e.S.Name, D: e.D.Name, Amps: BAmps[ds], Fix: 4}) // buffers grown out of an empty window by Append
		Oracle.One(t, env, rec, "sweep", &Case{S: e.S.Name, D: e.D.Name, Amps: BAmps[ds], Fix: 5}) // the source was the destination of a conversion before, converted through a window cut then
		Oracle.One(t, env, rec, "sweep", &Case{S: e.S.Name, D: e.D.Name, Amps: BAmps[ds], Fix: 6}) // source two frames longer than the destination
		Oracle.One(t, env, rec, "sweep", &Case{S: e.S.Name, D: e.D.Name, Amps: BAmps[ds], Fix: 7}) // destination two frames longer than the source
		Oracle.One(t, env, rec, "sweep", &Case{S: e.S.Name, D: e.D.Name, Amps: BAmps[ds], Fix: 10}) // output in pieces: two adjacent destination windows, the source goes on beyond the first
		Oracle.One(t, env, rec, "sweep", &Case{S: e.S.Name, D: e.D.Name, Amps: BAmps[ds], Fix: 8}) // the destination buffer is shared with every other instantiation of this destination type
		Oracle.One(t, env, rec, "sweep", &Case{S: e.S.Name, D: e.D.Name, Amps: BAmps[ds], Fix: 9}) // the source was converted into a shorter destination before
		if ds == 8 {                                                                               // every 8-bit code, alone in short buffers and repeated in long ones
			all := make([]int64, 256)
			for i := range all {
				all[i] = int64(i) - 128
			}
			for _, pad := range []int{0, 1024, 4353, 70001} {
				Oracle.One(t, env, rec, "sweep", &Case{S: e.S.Name, D: e.D.Name, Amps: all, Pad: pad})
			}
			for _, ch := range []int{2, 3, 5} { // the same codes interleaved over several channels, in ascending and descending order
				rev := make([]int64, len(all))
				for i := range all {
					rev[i] = all[len(all)-1-i]
				}
				Oracle.One(t, env, rec, "sweep", &Case{S: e.S.Name, D: e.D.Name, Amps: all, Ch: ch})
				Oracle.One(t, env, rec, "sweep", &Case{S: e.S.Name, D: e.D.Name, Amps: rev, Ch: ch, Fix: 1})
			}
			for i := range all {
				Oracle.One(t, env, rec, "sweep", &Case{S: e.S.Name, D: e.D.Name, Amps: all[i : i+1]})
			}
		}
		if !(ds <= 16 || (ds == 32 && env.Thorough())) {
			continue
		}
		total := uint64(1) << uint(ds)
		var mu sync.Mutex
		var bad []int64
		var known atomic.Int64
		var knownEx *Case
		numkit.Parallel(total, 1<<20, runtime.NumCPU(), func(lo, hi uint64) bool {
			r := NewRunner(e, env)
			start := lo
			if lo > 0 {
				start--
			}
			in := make([]int64, hi-start)
			for i := range in {
				in[i] = numkit.Lo(ds) + int64(start) + int64(i)
			}
			msg := r.Run(in)
			known.Add(r.Known)
			mu.Lock()
			if knownEx == nil && r.KnownEx != nil {
				knownEx = r.KnownEx
			}
			mu.Unlock()
			if msg != "" {
				// locate a minimal failing pair
				for i := 1; i < len(in); i++ {
					if NewRunner(e, env).Run(in[i-1:i+1]) != "" {
						mu.Lock()
						bad = append(bad, in[i-1], in[i])
						mu.Unlock()
						break
					}
				}
				return false
			}
			return true
		})
		if len(bad) > 0 {
			Oracle.One(t, env, rec, "sweep", &Case{S: e.S.Name, D: e.D.Name, Amps: bad[:2]})
			t.Fatalf("HARNESS-ERROR: sweep violation at %v in %s not reproduced by the case oracle", bad[:2], e)
		}
		if known.Load() > 0 {
			rec.KnownBulk(F9, known.Load(), knownEx)
		}
		rec.Bulk("exhaustive:"+e.Fn+":"+e.D.Name, int64(total), int64(total)-5)
		rec.Sample(map[string]any{"s": e.S.Name, "d": e.D.Name, "amps": "every amplitude of the source format in increasing order", "count": total})
	}
	rec.Exhaustive("every code of int8/uint8/int16/uint16 sources x {float32,float64} with round trips", true)
	rec.Exhaustive("every code of int32/uint32 sources x {float32,float64} with round trips", env.Thorough())
}
