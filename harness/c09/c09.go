// Package c09 decides property C09: fixed-to-floating conversion normalises
// into [-1,1] without losing information.
package c09

import (
	"fmt"
	"math"
	"sort"

	"pgregory.net/rapid"
	"verif/harness/convtab"
	"verif/harness/kit"
	"verif/harness/numkit"
)

const Property = "C09"

// Case: source amplitudes converted from the integer type S to the floating type D.
type Case struct {
	S    string  `json:"s"`
	D    string  `json:"d"`
	Amps []int64 `json:"amps"`
	Pad  int     `json:"pad,omitempty"` // the amplitudes are repeated cyclically up to this buffer length
	Fix  int     `json:"fix,omitempty"` // source construction order, see convtab.Entry.NewBlockFix
	Ch   int     `json:"ch,omitempty"`  // channel count of the buffers (0 = 1): the values are interleaved over several channels
}

var Pairs = convtab.Select("SignedAsFloat", "UnsignedAsFloat")

// F9 is the known finding: UnsignedAsFloat divides negative amplitudes by
// 2^(d-1)-1 instead of 2^(d-1).
const F9 = "F9"

// f9Value reports whether r is exactly what the defective formula produces
// for amplitude a (and differs from the correct quotient), for an unsigned source.
func f9Value(e *convtab.Entry, a int64, r float64) bool {
	if e.Fn != "UnsignedAsFloat" || a >= 0 || a == numkit.Lo(e.S.Bits) {
		return false
	}
	hi, full := float64(numkit.Hi(e.S.Bits)), -float64(numkit.Lo(e.S.Bits))
	var wrong, right float64
	if e.D.Bits == 32 {
		wrong = float64(float32(a) / float32(hi))
		right = float64(float32(a) / float32(full))
	} else {
		wrong = float64(a) / hi
		right = float64(a) / full
	}
	return r == wrong && r != right
}

// Runner evaluates blocks for one instantiation; it owns its buffers.
type Runner struct {
	E       *convtab.Entry
	env     kit.Env
	blk     convtab.BlockFn
	back    *convtab.Entry
	bblk    convtab.BlockFn
	out     []float64
	rt      []int64
	Known   int64
	KnownEx *Case
}

func NewRunner(e *convtab.Entry, env kit.Env) *Runner { return NewRunnerFix(e, env, 0, 1) }

func NewRunnerFix(e *convtab.Entry, env kit.Env, fix, ch int) *Runner {
	r := &Runner{E: e, env: env, blk: e.NewBlockShape(fix, ch)}
	r.back = convtab.Lookup(e.D.Name, e.S.Name) // FloatAsSigned / FloatAsUnsigned back into S
	r.bblk = r.back.NewBlockShape(fix, ch)
	return r
}

func (r *Runner) known(a int64, also ...int64) bool {
	if !kit.KnownActive(r.env, F9) {
		return false
	}
	r.Known++
	if r.KnownEx == nil {
		r.KnownEx = &Case{S: r.E.S.Name, D: r.E.D.Name, Amps: append([]int64{a}, also...)}
	}
	return true
}

// Run checks amplitudes given in increasing order; returns "" or the first violation.
func (r *Runner) Run(in []int64) string {
	e := r.E
	d, db := e.S.Bits, e.D.Bits
	if cap(r.out) < len(in) {
		r.out, r.rt = make([]float64, len(in)), make([]int64, len(in))
	}
	out, rt := r.out[:len(in)], r.rt[:len(in)]
	r.blk(in, nil, nil, out)
	lo, hi := numkit.Lo(d), numkit.Hi(d)
	for i, a := range in {
		v := out[i]
		if !(v >= -1 && v <= 1) {
			return fmt.Sprintf("%s: amplitude %d gives %g, outside [-1,1]", e, a, v)
		}
		if a == lo && v != -1 {
			return fmt.Sprintf("%s: lowest code gives %g, want -1", e, v)
		}
		if a == hi && v != 1 {
			return fmt.Sprintf("%s: highest code gives %g, want 1", e, v)
		}
		if a == 0 && v != 0 {
			return fmt.Sprintf("%s: zero-amplitude code gives %g, want 0", e, v)
		}
		if ok, decided := numkit.NormTolFast(a, d, v, db); !(decided && ok) {
			if (decided && !ok) || !numkit.NormTolOK(a, d, v, db) {
				return fmt.Sprintf("%s: amplitude %d gives %.17g, more than one source step (2^-%d) plus rounding from amplitude/full scale", e, a, v, d-1)
			}
		}
		if i > 0 && in[i] > in[i-1] {
			if v < out[i-1] {
				return fmt.Sprintf("%s: order inverted: amplitude %d -> %.17g but %d -> %.17g", e, in[i-1], out[i-1], a, v)
			}
			if d <= 32 && db == 64 && v == out[i-1] {
				if (f9Value(e, a, v) || f9Value(e, in[i-1], out[i-1])) && r.known(in[i-1], a) {
					// known finding F9: collision of adjacent negative-amplitude codes
				} else {
					return fmt.Sprintf("%s: distinct amplitudes %d and %d give the same float64 %.17g", e, in[i-1], a, v)
				}
			}
		}
	}
	// round trip through the matching floating-to-fixed conversion
	if (db == 64 && d <= 32) || (db == 32 && d <= 16) {
		r.bblk(nil, out, rt, nil)
		for i, a := range in {
			diff := rt[i] - a
			if db == 64 && diff != 0 {
				if f9Value(e, a, out[i]) && r.known(a) {
					continue
				}
				return fmt.Sprintf("%s then %s: amplitude %d -> %.17g -> %d, want the original sample", e, r.back, a, out[i], rt[i])
			}
			if db == 32 && (diff > 1 || diff < -1) {
				return fmt.Sprintf("%s then %s: amplitude %d -> %.9g -> %d, more than one step from the original", e, r.back, a, out[i], rt[i])
			}
		}
	}
	return ""
}

func pinned(a int64, d int) bool {
	lo, hi := numkit.Lo(d), numkit.Hi(d)
	return a == lo || a == hi || a == 0 || a == hi-1 || a == lo+1 || a == hi/2+1 || a == lo/2
}

func Check(c *Case) (res kit.Result) {
	e := convtab.Lookup(c.S, c.D)
	if e == nil || e.S.Kind == kit.Float || e.D.Kind != kit.Float || len(c.Amps) > 1<<20 {
		return
	}
	d := e.S.Bits
	lo, hi := numkit.Lo(d), numkit.Hi(d)
	if c.Pad < 0 || c.Pad > 1<<20 || c.Fix < 0 || c.Fix > convtab.MaxFix || c.Ch < 0 || c.Ch > 64 {
		return
	}
	in := kit.PadInts(append([]int64{lo, 0, hi}, c.Amps...), c.Pad)
	if c.Pad > len(c.Amps)+3 {
		res.Class("paddedToLongBuffer")
	}
	for _, a := range in {
		if a < lo || a > hi {
			return kit.Result{}
		}
	}
	sort.Slice(in, func(i, j int) bool { return in[i] < in[j] })
	r := NewRunnerFix(e, kit.GetEnv(Property), c.Fix, c.Ch)
	var msg string
	if p, v := kit.Try(func() { msg = r.Run(in) }); p {
		res.Failf("%s panicked: %v", e, v)
		return
	}
	if msg != "" {
		res.Failf("%s", msg)
		return
	}
	// The result is a function of the sample alone: the same values in other arrangements (zeros
	// first then descending; zero between every two values; zeros first then ascending) must convert to
	// the same floats, bit for bit, as in the ascending pass.
	if len(in) <= 1<<12 {
		asc := append([]float64(nil), r.out[:len(in)]...)
		byAmp := make(map[int64]float64, len(in))
		for i, a := range in {
			byAmp[a] = asc[i]
		}
		var seqs [][]int64
		desc := []int64{0, 0}
		for i := len(in) - 1; i >= 0; i-- {
			desc = append(desc, in[i])
		}
		inter := []int64{}
		for i := range in {
			inter = append(inter, in[len(in)-1-i], 0, in[i])
		}
		zeroThenAsc := append([]int64{0, 0}, in...) // a buffer that starts with zeros, negative values next
		seqs = append(seqs, desc, inter, zeroThenAsc)
		r2 := NewRunnerFix(e, kit.GetEnv(Property), c.Fix, c.Ch)
		for si, seq := range seqs {
			out := make([]float64, len(seq))
			if p, v := kit.Try(func() { r2.blk(seq, nil, nil, out) }); p {
				res.Failf("%s panicked on a rearranged buffer: %v", e, v)
				return
			}
			for i, a := range seq {
				if want := byAmp[a]; math.Float64bits(out[i]) != math.Float64bits(want) {
					res.Failf("%s: amplitude %d converts to %.17g in an ascending buffer but to %.17g at position %d of arrangement %d (zeros first then descending / zero between every two values / zeros first then ascending): the result depends on the neighbouring samples", e, a, want, out[i], i, si)
					return
				}
			}
		}
		res.Class("rearrangedBuffers")
	}
	if r.Known > 0 {
		res.KnownHit(F9)
	}
	for _, a := range c.Amps {
		if !pinned(a, d) {
			res.Class("codeNotPinnedByExamples")
		}
	}
	if (e.D.Bits == 64 && d <= 32) || (e.D.Bits == 32 && d <= 16) {
		res.Class("roundTrip")
	}
	if d >= 16 {
		res.Class("depthAtLeast16")
	}
	return
}

func FP(c *Case) uint64 {
	h := kit.NewHasher()
	h.Str(c.S)
	h.Str(c.D)
	h.Int(len(c.Amps))
	h.Int(c.Pad)
	h.Int(c.Fix)
	h.Int(c.Ch)
	for _, a := range c.Amps {
		h.U64(uint64(a))
	}
	return h.Sum()
}

var BAmps = map[int][]int64{8: kit.BoundaryAmps(8), 16: kit.BoundaryAmps(16), 32: kit.BoundaryAmps(32), 64: kit.BoundaryAmps(64)}

func Gen(t *rapid.T) *Case {
	e := Pairs[rapid.IntRange(0, len(Pairs)-1).Draw(t, "inst")]
	if e.S.Bits < 32 && rapid.IntRange(0, 3).Draw(t, "preferWide") != 0 {
		e = Pairs[rapid.IntRange(0, len(Pairs)-1).Draw(t, "inst2")]
	}
	c := &Case{S: e.S.Name, D: e.D.Name}
	c.Pad = kit.GenPad(t)
	c.Fix = rapid.IntRange(0, convtab.MaxFix).Draw(t, "fix")
	c.Ch = kit.GenNumCh(t, c.Pad)
	n := rapid.IntRange(1, 24).Draw(t, "n")
	base := kit.GenAmp(t, e.S.Bits, BAmps[e.S.Bits])
	for i := 0; i < n; i++ {
		if rapid.Bool().Draw(t, "near") {
			a := base + int64(rapid.IntRange(-40, 40).Draw(t, "delta"))
			if a < numkit.Lo(e.S.Bits) || a > numkit.Hi(e.S.Bits) || (a > base) != (a-base > 0) {
				a = base
			}
			c.Amps = append(c.Amps, a)
		} else {
			c.Amps = append(c.Amps, kit.GenAmp(t, e.S.Bits, BAmps[e.S.Bits]))
		}
	}
	return c
}

var Oracle = kit.Oracle[Case]{Property: Property, Gen: Gen, Check: Check, FP: FP}
