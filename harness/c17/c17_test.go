package c17

import (
	"math"
	"testing"

	"verif/harness/kit"
)

func TestRegress(t *testing.T) { Oracle.Regress(t) }
func TestRapid(t *testing.T)   { Oracle.Rapid(t) }
func TestReplay(t *testing.T)  { Oracle.Replay(t) }
func FuzzC17(f *testing.F)     { Oracle.Fuzz(f) }

// TestSweep: the standard audio rates x a deterministic grid of counts and
// durations (first 300 counts, counts around every whole hour, end of day).
func TestSweep(t *testing.T) {
	env := kit.GetEnv(Property)
	rec := kit.NewRecorder(env, "sweep")
	defer func() { rec.Flush(!t.Failed()) }()
	rates := append([]float64{1, 2, 3, 7, 0.5, 0.01, 1000, 999999, 1000000, 1e7, 1024, 12345.678}, StdRates...)
	rates = append(rates, 512, 2560, 12800, 64000, 320000, 1600000, 8e6, 1e9/3125, 1e9/25) // whole-nanosecond periods, odd ones included
	for _, base := range []float64{8000, 22050, 44100, 48000, 96000, 1000, 1} {            // rates next to an integer
		for _, eps := range []float64{5e-10, -6e-10, 1e-11, -1e-12, 3e-8} {
			rates = append(rates, base+eps)
		}
		rates = append(rates, math.Nextafter(base, 0), math.Nextafter(base, math.Inf(1)))
	}
	for _, f := range rates {
		var ns, ds []int64
		for n := int64(0); n < 300; n++ {
			ns = append(ns, n)
			ds = append(ds, n, n*1000003%day)
		}
		maxN := int64(math.Floor(f * 86400))
		// the arguments right before and after the first few rounding ties of Events and Duration
		for k := int64(0); k < 40; k++ {
			d0 := int64(math.Floor((float64(k) + 0.5) * 1e9 / f))
			n0 := int64(math.Floor((float64(k) + 0.5) * f / 1e9))
			for off := int64(-1); off <= 1; off++ {
				if d := d0 + off; d >= 0 && d <= day {
					ds = append(ds, d)
				}
				if n := n0 + off; n >= 0 && n <= int64(math.Floor(f*86400)) {
					ns = append(ns, n)
				}
			}
		}
		ns = append(ns, maxN, maxN-1, maxN-2)
		ds = append(ds, day, day-1, day-2)
		// round arguments: the first 120 multiples of every round unit, with both neighbours
		for k := int64(1); k <= 120; k++ {
			for off := int64(-1); off <= 1; off++ {
				for _, u := range RoundUnitsD {
					if d := u*k + off; d <= day {
						ds = append(ds, d)
					}
				}
				for _, u := range RoundUnitsN {
					if n := u*k + off; n <= maxN {
						ns = append(ns, n)
					}
				}
			}
		}
		// products (rate x duration, count x 10^9) next to multiples of 2^53, 2^63 and 2^64
		for _, j := range []uint{53, 63, 64} {
			for m := int64(1); m <= 5; m++ {
				d0, n0 := WordBoundary(m, j, f), WordBoundary(m, j, 1e9)
				for _, off := range boundaryOffsets {
					if d := d0 + off; d0 >= 0 && d >= 0 && d <= day {
						ds = append(ds, d)
					}
					if n := n0 + off; n0 >= 0 && n >= 0 && n <= maxN {
						ns = append(ns, n)
					}
				}
			}
		}
		for h := int64(1); h <= 24; h++ {
			for off := int64(-3); off <= 3; off++ {
				if n := int64(f*3600*float64(h)) + off; n >= 0 && n <= maxN {
					ns = append(ns, n)
				}
				if d := h*3600e9 + off; d <= day {
					ds = append(ds, d)
				}
			}
		}
		for i := 0; i < len(ns); i += 64 {
			j := i + 64
			if j > len(ns) {
				j = len(ns)
			}
			Oracle.One(t, env, rec, "sweep", &Case{F: kit.FV(f), Ns: ns[i:j]})
		}
		for i := 0; i < len(ds); i += 64 {
			j := i + 64
			if j > len(ds) {
				j = len(ds)
			}
			Oracle.One(t, env, rec, "sweep", &Case{F: kit.FV(f), Ds: ds[i:j]})
		}
	}
	rec.Exhaustive("29 rates (17 standard audio rates + edge rates) x counts 0..299, +-3 around every whole hour up to 24 h; durations likewise", true)
}
