// Package c17 decides property C17: Frequency converts between event counts
// and durations consistently.
package c17

import (
	"math"
	"math/big"
	"sort"
	"time"

	"pgregory.net/rapid"
	"pipelined.dev/signal"
	"verif/harness/kit"
)

const Property = "C17"

// Case: frequency F (exact float64), event counts Ns in 0..F*86400 and
// durations Ds (ns) in 0..24h.
type Case struct {
	F  kit.Val `json:"f"`
	Ns []int64 `json:"ns,omitempty"`
	Ds []int64 `json:"ds,omitempty"`
}

const day = int64(86400) * int64(time.Second)

var (
	giga = new(big.Rat).SetInt64(1e9)
	half = big.NewRat(1, 2)
	rel  = new(big.Rat).SetFrac(big.NewInt(1), new(big.Int).Lsh(big.NewInt(1), 50)) // 2^-50
)

// within reports |got - exact| <= 1/2 + 2^-50*exact and the fractional class of exact.
func within(got int64, exact *big.Rat) bool {
	diff := new(big.Rat).Sub(new(big.Rat).SetInt64(got), exact)
	diff.Abs(diff)
	tol := new(big.Rat).Mul(rel, exact)
	tol.Add(tol, half)
	return diff.Cmp(tol) <= 0
}

func fracClass(exact *big.Rat, res *kit.Result) {
	if exact.IsInt() {
		return
	}
	res.Class("exactValueNotInteger")
	fl := new(big.Int).Div(exact.Num(), exact.Denom())
	fr := new(big.Rat).Sub(exact, new(big.Rat).SetInt(fl))
	d := new(big.Rat).Sub(fr, half)
	d.Abs(d)
	if d.Cmp(big.NewRat(1, 1000)) < 0 {
		res.Class("within1e-3OfATie")
	}
}

func Check(c *Case) (res kit.Result) {
	f := c.F.F
	if c.F.K != 'f' || !(f >= 0.01 && f <= 1e7) || len(c.Ns) > 4096 || len(c.Ds) > 4096 {
		return
	}
	fr := new(big.Rat).SetFloat64(f)
	maxN := int64(math.Floor(f * 86400))
	fq := signal.Frequency(f)
	// a second rate with the same whole-Hertz part, evaluated in between: the
	// conversions are pure, so one rate's results must not depend on which rate
	// was converted just before
	f2 := math.Floor(f) + 0.37
	if f2 == f || f2 < 0.01 || f2 > 1e7 {
		f2 = math.Floor(f) + 0.61
	}
	if f2 < 0.01 {
		f2 = 0.01
	}
	fq2 := signal.Frequency(f2)

	ns := append([]int64(nil), c.Ns...)
	sort.Slice(ns, func(i, j int) bool { return ns[i] < ns[j] })
	var prevD time.Duration
	for i, n := range ns {
		if n < 0 || n > maxN {
			return kit.Result{}
		}
		if n+1 > math.MaxInt {
			continue // not an int on this platform (32-bit builds)
		}
		exact := new(big.Rat).SetInt64(n)
		exact.Mul(exact, giga).Quo(exact, fr) // n * 1e9 / f  nanoseconds
		_ = fq2.Events(time.Duration(n % 1000000))
		_ = fq2.Duration(int(n % 1000))
		d := fq.Duration(int(n))
		if !within(int64(d), exact) {
			res.Failf("Frequency(%v).Duration(%d) = %d ns, exact value %s ns: more than half a nanosecond (plus float rounding) off", f, n, int64(d), exact.FloatString(4))
			return
		}
		if i > 0 && d < prevD {
			res.Failf("Frequency(%v).Duration is not monotone: Duration(%d)=%d < Duration(%d)=%d", f, n, d, ns[i-1], prevD)
			return
		}
		prevD = d
		if d1 := fq.Duration(int(n + 1)); d1 < d {
			res.Failf("Frequency(%v).Duration(%d)=%d > Duration(%d)=%d", f, n, d, n+1, d1)
			return
		}
		fracClass(exact, &res)
		if f <= 1e6 {
			if back := fq.Events(d); int64(back) != n {
				res.Failf("Frequency(%v): Events(Duration(%d)) = Events(%d ns) = %d, want %d", f, n, int64(d), back, n)
				return
			}
			res.Class("roundTrip")
		}
	}
	ds := append([]int64(nil), c.Ds...)
	sort.Slice(ds, func(i, j int) bool { return ds[i] < ds[j] })
	var prevE int
	for i, d := range ds {
		if d < 0 || d > day {
			return kit.Result{}
		}
		exact := new(big.Rat).SetInt64(d)
		exact.Mul(exact, fr).Quo(exact, giga) // f * d / 1e9 events
		if exact.Cmp(maxIntRat) >= 0 {
			continue // the count is not an int on this platform (32-bit builds)
		}
		_ = fq2.Duration(int(d % 1000))
		_ = fq2.Events(time.Duration(d % 1000000))
		e := fq.Events(time.Duration(d))
		if !within(int64(e), exact) {
			res.Failf("Frequency(%v).Events(%d ns) = %d, exact value %s: more than half an event (plus float rounding) off", f, d, e, exact.FloatString(4))
			return
		}
		if i > 0 && e < prevE {
			res.Failf("Frequency(%v).Events is not monotone: Events(%d)=%d < Events(%d)=%d", f, d, e, ds[i-1], prevE)
			return
		}
		prevE = e
		if e1 := fq.Events(time.Duration(d + 1)); e1 < e {
			res.Failf("Frequency(%v).Events(%d)=%d > Events(%d)=%d", f, d, e, d+1, e1)
			return
		}
		fracClass(exact, &res)
	}
	return
}

func FP(c *Case) uint64 {
	h := kit.NewHasher()
	h.U64(math.Float64bits(c.F.F))
	h.Int(len(c.Ns))
	for _, n := range c.Ns {
		h.U64(uint64(n))
	}
	h.Int(len(c.Ds))
	for _, d := range c.Ds {
		h.U64(uint64(d))
	}
	return h.Sum()
}

var StdRates = []float64{8000, 11025, 16000, 22050, 32000, 44100, 48000, 88200, 96000, 176400, 192000, 352800, 384000, 705600, 768000, 2822400, 5644800}

// nearTie scans a window of consecutive arguments for the one whose scaled
// value is closest to a rounding tie (float estimate; the oracle is exact).
func nearTie(base int64, limit int64, scale float64) int64 {
	// solve for the argument whose scaled value is closest to m+1/2 for the m at the base,
	// then look at its immediate neighbours (the last whole argument before a tie matters most)
	m := math.Floor(float64(base) * scale)
	x0 := int64(math.Floor((m + 0.5) / scale))
	best, bestD := base, 2.0
	for k := int64(-2); k <= 2; k++ {
		x := x0 + k
		if x < 0 || x > limit {
			continue
		}
		v := float64(x) * scale
		fr := v - math.Floor(v)
		if d := math.Abs(fr - 0.5); d < bestD {
			best, bestD = x, d
		}
	}
	return best
}

// WordBoundary returns the largest argument x with x*scaleNum/scaleDen-style product
// below m*2^j: x = floor(m * 2^j / mult). Arithmetic on the product of the two
// arguments (rate x duration, count x 10^9) in 64- or 128-bit integers, or in a
// float with 53 bits, changes regime there.
func WordBoundary(m int64, j uint, mult float64) int64 {
	if mult <= 0 {
		return -1
	}
	x := new(big.Float).SetPrec(200).SetInt(new(big.Int).Lsh(big.NewInt(m), j))
	x.Quo(x, new(big.Float).SetPrec(200).SetFloat64(mult))
	if x.Cmp(big.NewFloat(9e18)) > 0 {
		return -1
	}
	v, _ := x.Int64()
	return v
}

var boundaryOffsets = []int64{-1, -2, -3, -7, -20, -45, -88, -150, -400, -499, 0, 1, 2, 50}

func Gen(t *rapid.T) *Case {
	var f float64
	switch rapid.IntRange(0, 7).Draw(t, "fSel") {
	case 7: // a rate whose period is a whole number of nanoseconds (2^a*5^b ns), odd periods included
		p := 1.0
		for a := rapid.IntRange(0, 9).Draw(t, "pow2"); a > 0; a-- {
			p *= 2
		}
		for b := rapid.IntRange(0, 9).Draw(t, "pow5"); b > 0; b-- {
			p *= 5
		}
		f = 1e9 / p
	case 6: // a rate next to an integer: a few ulps or a tiny epsilon away (an "is it an integer rate" test must be exact)
		base := float64(rapid.IntRange(1, 1000000).Draw(t, "nearInt"))
		if rapid.Bool().Draw(t, "nearStd") {
			base = rapid.SampledFrom(StdRates).Draw(t, "nearStdRate")
		}
		if rapid.Bool().Draw(t, "byUlps") {
			f = base
			up := rapid.Bool().Draw(t, "up")
			for k := rapid.IntRange(1, 300).Draw(t, "ulps"); k > 0; k-- {
				if up {
					f = math.Nextafter(f, math.Inf(1))
				} else {
					f = math.Nextafter(f, 0)
				}
			}
		} else {
			eps := math.Ldexp(1, -rapid.IntRange(14, 45).Draw(t, "epsExp"))
			if rapid.Bool().Draw(t, "epsNeg") {
				eps = -eps
			}
			f = base + eps
		}
	case 0:
		f = rapid.SampledFrom(StdRates).Draw(t, "std")
	case 1:
		f = float64(rapid.IntRange(1, 1000000).Draw(t, "intRate"))
	case 2: // p/q
		f = float64(rapid.IntRange(1, 5000000).Draw(t, "p")) / float64(rapid.IntRange(1, 1000).Draw(t, "q"))
	case 3: // powers of two and halves give exact ties
		f = math.Ldexp(1, rapid.IntRange(-6, 23).Draw(t, "pow"))
	default:
		f = rapid.Float64Range(0.01, 1e7).Draw(t, "f")
	}
	if f < 0.01 {
		f = 0.01
	}
	if f > 1e7 {
		f = 1e7
	}
	c := &Case{F: kit.FV(f)}
	maxN := int64(math.Floor(f * 86400))
	k := rapid.IntRange(1, 6).Draw(t, "k")
	for i := 0; i < k; i++ {
		n := rapid.Int64Range(0, maxN).Draw(t, "n")
		if rapid.IntRange(0, 3).Draw(t, "longSpan") == 0 { // long spans: errors that grow with the span show here
			n = maxN - rapid.Int64Range(0, maxN/16).Draw(t, "fromEnd")
		}
		if rapid.Bool().Draw(t, "tieN") {
			n = nearTie(n, maxN, 1e9/f)
		}
		if rapid.IntRange(0, 4).Draw(t, "wordN") == 0 { // count x 10^9 next to a multiple of 2^53 / 2^63 / 2^64
			x := WordBoundary(int64(rapid.IntRange(1, 8).Draw(t, "wordNm")), uint(rapid.SampledFrom([]int{53, 63, 64}).Draw(t, "wordNj")), 1e9)
			x += rapid.SampledFrom(boundaryOffsets).Draw(t, "wordNoff")
			if x >= 0 && x <= maxN {
				n = x
			}
		}
		if rapid.IntRange(0, 5).Draw(t, "roundN") == 0 { // round counts: whole multiples of a power of ten or of two, and their neighbours
			u := RoundUnitsN[rapid.IntRange(0, len(RoundUnitsN)-1).Draw(t, "roundNunit")]
			if x := u*rapid.Int64Range(1, 1+maxN/u).Draw(t, "roundNk") + int64(rapid.IntRange(-1, 1).Draw(t, "roundNoff")); x >= 0 && x <= maxN {
				n = x
			}
		}
		c.Ns = append(c.Ns, n)
		d := rapid.Int64Range(0, day).Draw(t, "d")
		if rapid.IntRange(0, 3).Draw(t, "longD") == 0 {
			d = day - rapid.Int64Range(0, day/16).Draw(t, "dFromEnd")
		}
		if rapid.Bool().Draw(t, "tieD") {
			d = nearTie(d, day, f/1e9)
		}
		if rapid.IntRange(0, 3).Draw(t, "wordD") == 0 { // rate x duration next to a multiple of 2^53 / 2^63 / 2^64
			x := WordBoundary(int64(rapid.IntRange(1, 8).Draw(t, "wordDm")), uint(rapid.SampledFrom([]int{53, 63, 64}).Draw(t, "wordDj")), f)
			if rapid.Bool().Draw(t, "wordDfree") {
				x += rapid.Int64Range(-600, 600).Draw(t, "wordDany")
			} else {
				x += rapid.SampledFrom(boundaryOffsets).Draw(t, "wordDoff")
			}
			if x >= 0 && x <= day {
				d = x
			}
		}
		if rapid.IntRange(0, 3).Draw(t, "roundD") == 0 { // round durations: whole microseconds ... whole minutes, and their neighbours
			u := RoundUnitsD[rapid.IntRange(0, len(RoundUnitsD)-1).Draw(t, "roundDunit")]
			k := rapid.Int64Range(1, day/u).Draw(t, "roundDk")
			if rapid.Bool().Draw(t, "roundDsmall") {
				k = int64(rapid.IntRange(1, 2000).Draw(t, "roundDkSmall"))
			}
			if x := u*k + int64(rapid.IntRange(-1, 1).Draw(t, "roundDoff")); x >= 0 && x <= day {
				d = x
			}
		}
		c.Ds = append(c.Ds, d)
	}
	return c
}

// Round units: durations people write down (1 us ... 1 min) and counts that are
// powers of ten or block sizes; code that special-cases "whole" arguments is
// only reached by these.
var (
	RoundUnitsD = []int64{1e3, 1e4, 1e5, 1e6, 1e7, 1e8, 1e9, 6e10}
	RoundUnitsN = []int64{10, 100, 1000, 10000, 1e6, 64, 256, 1024, 4096, 65536}
)

var maxIntRat = new(big.Rat).SetInt64(math.MaxInt - 1)

var Oracle = kit.Oracle[Case]{Property: Property, Gen: Gen, Check: Check, FP: FP}
