package c11

import (
	"testing"

	"verif/harness/kit"
)

func TestRegress(t *testing.T) { Oracle.Regress(t) }
func TestRapid(t *testing.T)   { Oracle.Rapid(t) }
func TestReplay(t *testing.T)  { Oracle.Replay(t) }

// TestSweep: a deterministic grid of configurations, each run several times.
func TestSweep(t *testing.T) {
	env := kit.GetEnv(Property)
	rec := kit.NewRecorder(env, "sweep")
	defer func() { rec.Flush(!t.Failed()) }()
	rep := env.Pick(2, 10)
	for ti, tn := range Types {
		for _, g := range []int{2, 4, 16, 64} {
			for _, procs := range []int{1, 2, 16} {
				for mode := 0; mode < 3; mode++ {
					c := &Case{T: tn, C: 1 + ti%3, K: 4 + ti, L: (ti % 2) * 2, G: g, M: 12, Procs: procs, GC: mode == 2, Warm: (g / 4) % 3, Repeat: rep, PutView: (ti+g)%3 == 0, LateCopy: mode == 1 && (ti+g)%2 == 0, Grow: (ti + g/2 + procs + mode) % 3}
					for i := 0; i < g; i++ {
						c.Yields = append(c.Yields, (i*5+mode)%8)
						c.ByValue = append(c.ByValue, mode == 1 && i%2 == 0)
					}
					Oracle.One(t, env, rec, "sweep", c)
				}
			}
		}
	}
	// degenerate pools under concurrency: no channels (with any Length/Capacity in the allocator), and
	// no capacity with buffers that grow by less than a frame and are offered back
	for ti, tn := range Types {
		for _, sh := range [][3]int{{0, 0, 0}, {0, 0, 8}, {0, 4, 8}, {2, 0, 0}, {3, 0, 0}} {
			for _, g := range []int{2, 8} {
				c := &Case{T: tn, C: sh[0], L: sh[1], K: sh[2], G: g, M: 9, Procs: []int{2, 16}[ti%2], Repeat: rep, Grow: 1 + ti%2, Hold: 1 + ti%2}
				for i := 0; i < g; i++ {
					c.Yields = append(c.Yields, (i*3+ti)%8)
					c.ByValue = append(c.ByValue, i%3 == 0)
				}
				Oracle.One(t, env, rec, "sweep", c)
			}
		}
	}
	// contention on the pool itself: tiny buffers, several held per goroutine, thousands of cycles
	for i, g := range []int{3, 8, 32} {
		for hold := 1; hold <= 3; hold++ {
			for mode := 0; mode < 4; mode++ {
				c := &Case{T: Types[(i+hold+mode)%len(Types)], C: 1 + mode%2, K: 1 + hold, L: mode % 2, G: g, M: env.Pick(16000, 80000) / g, Procs: []int{2, 8, 16}[(i+mode)%3],
					Hold: hold, Rev: mode%2 == 1, Table: mode >= 2, Repeat: 1}
				for k := 0; k < g; k++ {
					c.Yields = append(c.Yields, []int{0, 0, 2, 4, 1, 0, 6, 0}[(k+mode)%8])
					c.ByValue = append(c.ByValue, mode == 1 && k%2 == 0)
				}
				Oracle.One(t, env, rec, "sweep", c)
			}
		}
	}
	// buffers of 2.5-8 MiB, a few goroutines and cycles
	for ti, tn := range []string{"float64", "uint64", "int32", "uint16", "int8"}[:env.Pick(2, 5)] {
		c := &Case{T: tn, C: 1 + ti%2, K: (300000 << uint(ti)) / (1 + ti%2), L: 0, G: 4, M: 4, Procs: 8, Repeat: env.Pick(1, 3)}
		for i := 0; i < c.G; i++ {
			c.Yields = append(c.Yields, i%8)
			c.ByValue = append(c.ByValue, false)
		}
		Oracle.One(t, env, rec, "sweep", c)
	}
	rec.Exhaustive("grid: 6 types x G in {2,4,16,64} x GOMAXPROCS in {1,2,16} x {shared pointer, by-value copies, GC during run}; schedules are sampled, not enumerated", false)
}
