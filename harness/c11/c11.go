// Package c11 decides property C11: the pool allocator is safe under
// concurrent get and put. Built with -race.
package c11

import (
	"fmt"
	"math"
	"reflect"
	"runtime"
	"sync"
	"sync/atomic"

	"pgregory.net/rapid"
	"pipelined.dev/signal"
	"verif/harness/kit"
)

const Property = "C11"

// Case: G goroutines, each doing M get/fill/verify/put cycles on one pool.
// Yields[g] is a bit mask: bit k set = runtime.Gosched() at yield point k of
// every cycle (after get, after fill, after verify). ByValue[g]: goroutine g
// works on its own by-value copy of the PoolAllocator. Repeat: how often the
// whole schedule is run (fresh pool each time).
type Case struct {
	T        string `json:"t"`
	C        int    `json:"c"`
	L        int    `json:"l"`
	K        int    `json:"k"`
	G        int    `json:"g"`
	M        int    `json:"m"`
	Procs    int    `json:"procs"`
	Yields   []int  `json:"yields"`
	ByValue  []bool `json:"byValue"`
	GC       bool   `json:"gc"`
	Warm     int    `json:"warm,omitempty"` // buffers obtained from the allocator (and put back) before the by-value copies are taken
	Repeat   int    `json:"repeat"`
	Hold     int    `json:"hold,omitempty"` // buffers each goroutine holds at the same time (0 = 1), released in get order or (Rev) newest first
	Rev      bool   `json:"rev,omitempty"`
	LateCopy bool   `json:"lateCopy,omitempty"` // by-value goroutines copy the allocator after the start, while others already use it, and again every few cycles
	PutView  bool   `json:"putView,omitempty"`  // every cycle puts back a Slice(0,k) view of the buffer it got (k varies) instead of the buffer itself
	Grow     int    `json:"grow,omitempty"`     // how a holder fills the buffer it got: 0 = through a full-capacity view only; 1 = it first grows the obtained header to its capacity by AppendSample, 2 = by one Append (buffers up to 64 frames), reading the header back before the buffer returns to the pool
	Table    bool   `json:"table,omitempty"`    // holders also register every buffer in a shared ownership table (adds synchronisation, so only some cases use it)
}

var Types = []string{"int8", "uint16", "int32", "float32", "float64", "uint64", "NInt16", "NFloat32"}

func stampOf(g, cycle int) int64 { return int64(1 + (g*31+cycle*7)%120) }

func Check(c *Case) (res kit.Result) {
	okT := false
	for _, t := range Types {
		okT = okT || t == c.T
	}
	if !okT || c.C < 0 || c.C > 8 || c.K < 0 || c.K > 1<<21 || (c.K > 64 && c.G*c.M > 64) || c.L < 0 || c.L > c.K || c.G < 1 || c.G > 64 || c.M < 1 || c.M > 20000 || (c.M > 200 && c.C*c.K > 16) || c.Hold < 0 || c.Hold > 4 || c.Grow < 0 || c.Grow > 2 ||
		c.Procs < 1 || c.Procs > 64 || len(c.Yields) != c.G || len(c.ByValue) != c.G || c.Repeat < 1 || c.Repeat > 50 {
		return
	}
	prev := runtime.GOMAXPROCS(c.Procs)
	defer runtime.GOMAXPROCS(prev)
	var recycledTotal int64
	for rep := 0; rep < c.Repeat; rep++ {
		msg, recycled := runOnce(c)
		recycledTotal += recycled
		if msg != "" {
			res.Failf("run %d of %d: %s", rep+1, c.Repeat, msg)
			return
		}
	}
	if c.G >= 2 {
		res.Class("concurrent")
	}
	if c.G >= 4 && c.Procs >= 2 && recycledTotal > 0 {
		res.Class("fourPlusGoroutinesParallelWithRecycling")
	}
	if c.GC {
		res.Class("gcDuringRun")
	}
	if c.Hold >= 2 {
		res.Class("goroutinesHoldSeveralBuffers")
	}
	if c.M >= 1000 && c.G >= 3 && c.Procs >= 2 {
		res.Class("thousandsOfCyclesInParallel")
	}
	if c.Table {
		res.Class("ownershipTable")
	}
	if c.Grow > 0 && c.L < c.K && c.K <= 64 && c.C > 0 {
		res.Class("holdersGrowTheirBuffers")
	}
	if c.Grow > 0 && c.K == 0 && c.C >= 2 {
		res.Class("buffersOfAnEmptyPoolGrowAndAreOfferedBack")
	}
	if c.C == 0 {
		res.Class("poolOfBuffersWithoutChannels")
	}
	if c.LateCopy {
		res.Class("allocatorCopiedWhileInUse")
	}
	if c.PutView {
		res.Class("viewsPutBack")
		if c.GC {
			res.Class("viewsPutBackWithGC")
		}
	}
	if c.Warm > 0 {
		res.Class("allocatorUsedBeforeCopies")
	}
	for _, bv := range c.ByValue {
		if bv {
			res.Class("allocatorCopiedByValue")
			break
		}
	}
	return
}

func runOnce(c *Case) (string, int64) {
	C, L, K := c.C, c.L, c.K
	al := signal.Allocator{Channels: C, Length: L, Capacity: K}
	pool := kit.NewAnyPool(c.T, al)
	want := kit.Hdr{Len: C * L, Cap: C * K, Length: L, Capacity: K, Channels: C, BitDepth: kit.Info(c.T).Bits}
	if C == 0 { // a pool of buffers without channels: no storage, whatever Length and Capacity say
		want = kit.Hdr{BitDepth: kit.Info(c.T).Bits}
		K, L = 0, 0
	}
	if c.Warm > 0 && c.Warm <= 8 {
		var warm []kit.AnyBuf
		for i := 0; i < c.Warm; i++ {
			warm = append(warm, pool.Get())
		}
		for i, b := range warm {
			if i%2 == 0 { // some stay checked out (and are simply dropped), some go back
				pool.Put(b)
			}
		}
	}
	wantFull := want
	wantFull.Len, wantFull.Length = C*K, K
	errs := make([]string, c.G) // one slot per goroutine: no sharing between workers
	one := kit.AllocAny(c.T, signal.Allocator{Channels: 1, Length: 1, Capacity: 1})
	zero := one.Get(0)
	stampVal := func(g, cycle int) kit.Val { // the stamp as the element type stores it
		b := kit.AllocAny(c.T, signal.Allocator{Channels: 1, Length: 1, Capacity: 1})
		b.Set(0, kit.IV(stampOf(g, cycle)))
		return b.Get(0)
	}
	isFloat := kit.Info(c.T).Kind == kit.Float
	negZero := kit.FV(math.Copysign(0, -1))
	var recycled atomic.Int64
	var owners sync.Map // buffer object -> goroutine holding it (only with c.Table)
	start := make(chan struct{})
	stop := make(chan struct{})
	var wg, gcwg sync.WaitGroup
	if c.GC {
		gcwg.Add(1)
		go func() {
			defer gcwg.Done()
			for {
				select {
				case <-stop:
					return
				default:
					runtime.GC()
					runtime.Gosched()
				}
			}
		}()
	}
	for g := 0; g < c.G; g++ {
		wg.Add(1)
		p := pool
		if c.ByValue[g] {
			p = pool.Copy()
		}
		go func(g int, p kit.AnyPool) {
			defer wg.Done()
			defer func() {
				if r := recover(); r != nil && errs[g] == "" {
					errs[g] = fmt.Sprintf("goroutine %d panicked: %v", g, r)
				}
			}()
			<-start
			if c.LateCopy && c.ByValue[g] {
				p = pool.Copy()
			}
			y := c.Yields[g]
			seen := map[uintptr]bool{} // by address only: the map must not keep put-back buffers reachable
			hold := c.Hold
			if hold < 1 {
				hold = 1
			}
			bufs := make([]kit.AnyBuf, 0, hold)
			fulls := make([]kit.AnyBuf, 0, hold)
			stamps := make([]kit.Val, 0, hold)
			for cycle := 0; cycle < c.M; cycle++ {
				bufs, fulls, stamps = bufs[:0], fulls[:0], stamps[:0]
				if c.LateCopy && c.ByValue[g] && cycle%4 == 3 {
					p = pool.Copy()
				}
				if c.Grow > 0 && K == 0 && C >= 2 && cycle%3 == 0 {
					// a buffer of a pool without capacity grows by less than a frame (an Append is the only
					// way it gets content) and is offered back: it holds storage now, so it is not the pool's
					// to take (C15) - accepted or refused, the pool must go on handing out empty buffers
					x := p.Get()
					if h := x.Hdr(); h != want {
						errs[g] = fmt.Sprintf("goroutine %d cycle %d: Get returned %+v, want %+v", g, cycle, h, want)
						return
					}
					part := kit.AllocAny(c.T, signal.Allocator{Channels: C, Length: 0, Capacity: 1})
					part.AppendSample(stampVal(g, cycle))
					x.Append(part)
					kit.Try(func() { p.Put(x) })
				}
				for hi := 0; hi < hold; hi++ {
					b := p.Get()
					if c.Table {
						if o, dup := owners.LoadOrStore(b.Raw(), g); dup {
							errs[g] = fmt.Sprintf("goroutine %d cycle %d: Get returned a buffer that goroutine %v holds at this moment", g, cycle, o)
							return
						}
					}
					bufs = append(bufs, b)
					if len(seen) < 4096 {
						addr := reflect.ValueOf(b.Raw()).Pointer()
						if seen[addr] {
							recycled.Add(1)
						}
						seen[addr] = true
					}
					if y&1 != 0 {
						runtime.Gosched()
					}
					if h := b.Hdr(); h != want {
						errs[g] = fmt.Sprintf("goroutine %d cycle %d: Get returned %+v, want %+v", g, cycle, h, want)
						return
					}
					full := b.Slice(0, K)
					n := full.Len()
					for i := 0; i < n; i++ {
						if v := full.Get(i); !kit.SameVal(v, zero) {
							errs[g] = fmt.Sprintf("goroutine %d cycle %d: obtained buffer is not fresh: sample %d reads %s", g, cycle, i, v)
							return
						}
					}
					st := stampVal(g, cycle*hold+hi)
					if isFloat && (g+cycle+hi)%4 == 0 {
						st = negZero // equal to 0, yet a different sample: a recycled buffer must read +0
					}
					if c.Grow > 0 && L < K && K <= 64 {
						// the holder grows the buffer it was given (in place: the capacity is there)
						if c.Grow == 1 {
							for b.Len() < C*K {
								b.AppendSample(st)
							}
						} else {
							blk := kit.AllocAny(c.T, signal.Allocator{Channels: C, Length: K - L, Capacity: K - L})
							for i := 0; i < blk.Len(); i++ {
								blk.Set(i, st)
							}
							b.Append(blk)
						}
						if h := b.Hdr(); h != wantFull {
							errs[g] = fmt.Sprintf("goroutine %d cycle %d: obtained buffer grown to its capacity reports %+v, want %+v", g, cycle, h, wantFull)
							return
						}
					}
					for i := 0; i < n; i++ {
						full.Set(i, st)
					}
					fulls, stamps = append(fulls, full), append(stamps, st)
				}
				if y&2 != 0 {
					runtime.Gosched()
				}
				for hi, full := range fulls {
					n := full.Len()
					for i := 0; i < n; i++ {
						if v := full.Get(i); !kit.SameVal(v, stamps[hi]) {
							errs[g] = fmt.Sprintf("goroutine %d cycle %d: wrote stamp %s over the whole capacity of held buffer %d, sample %d now reads %s - another holder wrote to this storage", g, cycle, stamps[hi], hi, i, v)
							return
						}
					}
				}
				if y&4 != 0 {
					runtime.Gosched()
				}
				for hi := range bufs {
					b := bufs[hi]
					if c.Rev {
						b = bufs[len(bufs)-1-hi]
					}
					if c.Table {
						owners.Delete(b.Raw())
					}
					if c.PutView {
						b = b.Slice(0, (cycle+hi)%(K+1))
					}
					p.Put(b)
				}
			}
		}(g, p)
	}
	close(start)
	wg.Wait()
	close(stop)
	gcwg.Wait()
	for _, e := range errs {
		if e != "" {
			return e, recycled.Load()
		}
	}
	return "", recycled.Load()
}

func FP(c *Case) uint64 {
	h := kit.NewHasher()
	h.Str(c.T)
	gc := 0
	if c.GC {
		gc = 1
	}
	h.Ints([]int{c.C, c.L, c.K, c.G, c.M, c.Procs, gc, c.Repeat, c.Warm, c.Hold, c.Grow})
	h.Str(fmt.Sprint(c.Rev, c.Table, c.PutView, c.LateCopy))
	h.Ints(c.Yields)
	for _, b := range c.ByValue {
		if b {
			h.Int(1)
		} else {
			h.Int(0)
		}
	}
	return h.Sum()
}

func Gen(t *rapid.T) *Case {
	c := &Case{T: rapid.SampledFrom(Types).Draw(t, "type"), C: rapid.IntRange(1, 4).Draw(t, "c")}
	c.K = rapid.IntRange(0, 16).Draw(t, "k")
	c.L = rapid.SampledFrom([]int{0, c.K, c.K / 2}).Draw(t, "l")
	c.G = rapid.SampledFrom([]int{2, 3, 4, 8, 16, 32, 64}).Draw(t, "g")
	c.M = rapid.IntRange(1, 30).Draw(t, "m")
	if kit.Chance(t, "huge", 1, 30) { // megabytes per buffer: size-gated paths of Put/clear
		c.T = rapid.SampledFrom([]string{"float64", "uint64"}).Draw(t, "hugeType")
		c.K = rapid.IntRange(270000, 420000).Draw(t, "kHuge") / c.C
		c.L = 0
		c.G = rapid.IntRange(2, 6).Draw(t, "gHuge")
		c.M = rapid.IntRange(1, 18/c.G).Draw(t, "mHuge")
	}
	c.Hold = rapid.SampledFrom([]int{1, 1, 2, 2, 3, 4}).Draw(t, "hold")
	c.Rev = rapid.Bool().Draw(t, "rev")
	c.Grow = rapid.IntRange(0, 2).Draw(t, "grow")
	c.PutView = rapid.IntRange(0, 2).Draw(t, "putView") == 0
	c.LateCopy = rapid.Bool().Draw(t, "lateCopy")
	hammer := c.K <= 64 && rapid.IntRange(0, 3).Draw(t, "hammer") == 0
	if hammer { // tiny buffers, thousands of cycles: contention on the pool itself
		c.C = rapid.IntRange(1, 2).Draw(t, "cHammer")
		c.K = rapid.IntRange(0, 4).Draw(t, "kHammer")
		c.L = rapid.SampledFrom([]int{0, c.K}).Draw(t, "lHammer")
		c.G = rapid.SampledFrom([]int{3, 4, 8, 16, 32}).Draw(t, "gHammer")
		c.M = rapid.SampledFrom([]int{500, 1000, 2000, 4000}).Draw(t, "mHammer") * 8 / c.G
		c.Table = rapid.IntRange(0, 2).Draw(t, "table") == 0
	}
	if kit.Chance(t, "noChannels", 1, 15) {
		c.C = 0 // Length and Capacity stay as drawn: the allocator value is what the pool was made from
	}
	c.Procs = rapid.SampledFrom([]int{1, 2, 4, 8, 16}).Draw(t, "procs")
	c.GC = rapid.IntRange(0, 3).Draw(t, "gc") == 0 && !hammer
	c.Repeat = 1
	if rapid.Bool().Draw(t, "warmSel") {
		c.Warm = rapid.IntRange(1, 4).Draw(t, "warm")
	}
	mode := rapid.IntRange(0, 2).Draw(t, "valueMode")
	for g := 0; g < c.G; g++ {
		c.Yields = append(c.Yields, rapid.IntRange(0, 7).Draw(t, "yield"))
		c.ByValue = append(c.ByValue, mode == 1 || (mode == 2 && rapid.Bool().Draw(t, "byValue")))
	}
	return c
}

var Oracle = kit.Oracle[Case]{Property: Property, Gen: Gen, Check: Check, FP: FP}
