// Package c04 decides property C04: sample-at-a-time append never exceeds or
// changes the allocated capacity.
package c04

import (
	"fmt"
	"math"

	"pgregory.net/rapid"
	"pipelined.dev/signal"
	"verif/harness/kit"
)

const Property = "C04"

// Case: window [A,B) of a root with Kr frames; N AppendSample calls; call j
// appends Vals[j % len(Vals)].
type Case struct {
	T    string  `json:"t"`
	C    int     `json:"c"`
	Kr   int     `json:"kr"`
	A    int     `json:"a"`
	B    int     `json:"b"`
	N    int     `json:"n"`
	Over int     `json:"over,omitempty"` // >0: the (full) root got this many AppendSample calls, all rejected, before the window was sliced
	Fix  int     `json:"fix,omitempty"`  // fixture construction order, see kit.RootWindow; 3 = buffer produced by a growing Append (see runGrown)
	Vals []int64 `json:"vals"`           // 0..127: representable in every element type; 128..133: -0, subnormals, +Inf, -Max, a fraction (floating types)
	// Fix 3 only: the buffer under test is the window [Ws,We) (frames) of the grown buffer
	Win bool `json:"win,omitempty"`
	Ws  int  `json:"ws,omitempty"`
	We  int  `json:"we,omitempty"`
}

var table = map[string]func(*Case) kit.Result{}

func reg[T signal.SignalTypes](n string) { table[n] = run[T] }

func init() {
	reg[int]("int")
	reg[int8]("int8")
	reg[int16]("int16")
	reg[int32]("int32")
	reg[int64]("int64")
	reg[uint]("uint")
	reg[uint8]("uint8")
	reg[uint16]("uint16")
	reg[uint32]("uint32")
	reg[uint64]("uint64")
	reg[uintptr]("uintptr")
	reg[float32]("float32")
	reg[float64]("float64")
	reg[kit.NInt16]("NInt16")
	reg[kit.NUint8]("NUint8")
	reg[kit.NFloat32]("NFloat32")
}

func Check(c *Case) kit.Result {
	f, ok := table[c.T]
	if ok && c.Fix == 3 {
		if c.C < 2 || c.C > 64 || c.A < 0 || c.A >= c.C || c.B < 1 || c.B > 1<<12 || c.N < 0 || c.N > 1<<16 || len(c.Vals) == 0 {
			return kit.Result{}
		}
		for _, v := range c.Vals {
			if v < 0 || v > 133 {
				return kit.Result{}
			}
		}
		return f(c)
	}
	if !ok || c.C < 1 || c.Kr < 0 || c.A < 0 || c.A > c.B || c.B > c.Kr || c.C*c.Kr > 1<<20 || c.N < 0 || c.N > 1<<21 || len(c.Vals) == 0 || c.Fix < 0 || c.Fix > 3 {
		return kit.Result{}
	}
	for _, v := range c.Vals {
		if v < 0 || v > 133 {
			return kit.Result{}
		}
	}
	return f(c)
}

// runGrown: the buffer under test is the result of a growing Append onto a
// buffer that ends in a partial frame (A single samples, then a source of B
// samples), so its capacity is whatever the runtime chose and need not be a
// whole number of frames. AppendSample must fill it to exactly that capacity
// and never change the capacity or the storage.
// val maps a case value to a sample: 128 is the negative zero of floating types (0 for integer types).
func val[T signal.SignalTypes](x int64) T {
	if x < 128 {
		return T(x)
	}
	if kit.KindOf[T]() != kit.Float {
		return T(x % 100) // the special codes below only mean something for the floating types
	}
	f32 := kit.BitsOf[T]() == 32
	switch x {
	case 128:
		return kit.As[T](kit.FV(math.Copysign(0, -1)))
	case 129: // subnormal values (stored as they are, bit for bit)
		if f32 {
			return kit.As[T](kit.FV(float64(math.SmallestNonzeroFloat32) * 3))
		}
		return kit.As[T](kit.FV(math.SmallestNonzeroFloat64 * 3))
	case 130:
		if f32 {
			return kit.As[T](kit.FV(-float64(math.SmallestNonzeroFloat32)))
		}
		return kit.As[T](kit.FV(-math.SmallestNonzeroFloat64))
	case 131:
		return kit.As[T](kit.FV(math.Inf(1)))
	case 132:
		if f32 {
			return kit.As[T](kit.FV(-math.MaxFloat32))
		}
		return kit.As[T](kit.FV(-math.MaxFloat64))
	default: // 133: not a whole number
		return kit.As[T](kit.FV(0.3125))
	}
}

func runGrown[T signal.SignalTypes](c *Case) (res kit.Result) {
	C := c.C
	if c.A >= C || c.B > 1<<12 {
		return
	}
	b := signal.Alloc[T](signal.Allocator{Channels: C, Length: 0, Capacity: 1})
	for k := 0; k < c.A; k++ {
		b.AppendSample(T(kit.PartialVal(k)))
	}
	src := signal.Alloc[T](signal.Allocator{Channels: C, Length: 0, Capacity: c.B/C + 1})
	for k := 0; k < c.B; k++ {
		src.AppendSample(T(1 + k%90))
	}
	if p, v := kit.Try(func() { b.Append(src) }); p {
		res.Failf("fixture: Append of %d samples onto %d samples (%d ch) panicked: %v", c.B, c.A, C, v)
		return
	}
	pl, cp := b.Len(), b.Cap()
	if pl != c.A+c.B || cp < pl {
		res.Failf("fixture: after Append Len %d Cap %d, want Len %d", pl, cp, c.A+c.B)
		return
	}
	if m := kit.RawMismatch(b, kit.HdrOf(b)); m != "" {
		res.Failf("fixture: buffer grown by Append (%d + %d samples, %d ch): %s", c.A, c.B, C, m)
		return
	}
	if cp%C != 0 {
		res.Class("capacityNotWholeFrames")
	}
	res.Class("bufferFromGrowingAppend")
	alias := b.Slice(0, b.Capacity()) // sees the whole frames of the storage
	// every position of the storage that some header can read
	visible := pl
	if alias.Len() > visible {
		visible = alias.Len()
	}
	read := func(i int) T {
		if i < pl {
			return b.Sample(i)
		}
		return alias.Sample(i)
	}
	model := make([]T, visible)
	for i := range model {
		model[i] = read(i)
	}
	// the buffer under test: the grown buffer itself or a window of it
	t, off, ln, tc := b, 0, pl, cp
	if c.Win {
		if c.Ws < 0 || c.Ws > c.We || c.We > cp/C {
			return kit.Result{}
		}
		t, off, ln, tc = b.Slice(c.Ws, c.We), c.Ws*C, (c.We-c.Ws)*C, cp-c.Ws*C
		res.Class("windowOfGrownBuffer")
		if tc%C != 0 {
			res.Class("windowCapacityNotWholeFrames")
		}
		if t.Len() != ln || t.Cap() != tc {
			res.Failf("fixture: window [%d,%d) of a grown buffer (len=%d,cap=%d samples, %d ch) has Len %d Cap %d, want %d and %d", c.Ws, c.We, pl, cp, C, t.Len(), t.Cap(), ln, tc)
			return
		}
	}
	ln0 := ln
	for j := 0; j < c.N; j++ {
		v := val[T](c.Vals[j%len(c.Vals)])
		what := fmt.Sprintf("call %d AppendSample(%s) on a grown buffer (len=%d,cap=%d samples, %d ch; window=%v [%d,%d))", j, kit.Str(v), pl, cp, C, c.Win, c.Ws, c.We)
		if p, pv := kit.Try(func() { t.AppendSample(v) }); p {
			res.Failf("%s: panic: %v", what, pv)
			return
		}
		if ln < tc {
			ln++
			if t.Len() != ln {
				res.Failf("%s: buffer is not full but Len is %d, want %d", what, t.Len(), ln)
				return
			}
			if got := t.Sample(ln - 1); !kit.Same(got, v) {
				res.Failf("%s: position Len-1=%d reads %s", what, ln-1, kit.Str(got))
				return
			}
			if off+ln-1 < visible {
				model[off+ln-1] = v
				if got := read(off + ln - 1); !kit.Same(got, v) {
					res.Failf("%s: a view of the same storage reads %s at its position %d (storage no longer shared?)", what, kit.Str(got), off+ln-1)
					return
				}
			}
		}
		if t.Len() != ln || t.Cap() != tc || t.Length() != kit.CeilDiv(ln, C) || t.Capacity() != tc/C {
			res.Failf("%s: Len/Cap/Length/Capacity = %d/%d/%d/%d, want %d/%d/%d/%d", what, t.Len(), t.Cap(), t.Length(), t.Capacity(), ln, tc, kit.CeilDiv(ln, C), tc/C)
			return
		}
		if c.Win && (b.Len() != pl || b.Cap() != cp) {
			res.Failf("%s: the grown parent's Len/Cap changed to %d/%d", what, b.Len(), b.Cap())
			return
		}
	}
	for i := range model {
		if got := read(i); !kit.Same(got, model[i]) {
			res.Failf("after %d calls on a grown buffer (len=%d,cap=%d samples, %d ch; window=%v [%d,%d)): storage position %d reads %s, want %s", c.N, pl, cp, C, c.Win, c.Ws, c.We, i, kit.Str(got), kit.Str(model[i]))
			return
		}
	}
	if c.N > tc-ln0 {
		res.Class("crossesCapacity")
	}
	return
}

func run[T signal.SignalTypes](c *Case) (res kit.Result) {
	if c.Fix == 3 {
		return runGrown[T](c)
	}
	C := c.C
	root, w := kit.RootWindow[T](C, c.Kr, c.A, c.B, 0, c.Fix)
	if c.Over > 0 && c.Over <= 8 {
		// a history the window's parent may have had: it is full and was offered more samples
		for k := 0; k < c.Over; k++ {
			root.AppendSample(T(77))
		}
		w = root.Slice(c.A, c.B)
		res.Class("parentOverranBeforeSlicing")
	}
	model := kit.RootModel[T](C, c.Kr)
	rootHdr := kit.HdrOf(root)
	off, ln, cp := C*c.A, C*(c.B-c.A), C*(c.Kr-c.A)
	bits := kit.BitsOf[T]()
	if c.N > cp-ln {
		res.Class("crossesCapacity")
	}
	if c.A > 0 {
		res.Class("windowAtLaterFrame")
	}
	if cp == 0 {
		res.Class("zeroCapacity")
	}
	if C >= 2 && c.N > 0 && cp > ln {
		res.Class("partialFrames")
	}
	var twin *signal.Buffer[T]
	var twinHdr kit.Hdr
	every := 1
	if c.N*len(model) > 1<<16 {
		every = c.N/16 + 1
	}
	for j := 0; j < c.N; j++ {
		v := val[T](c.Vals[j%len(c.Vals)])
		what := fmt.Sprintf("call %d AppendSample(%s) on window(off=%d,len=%d,cap=%d samples, %d ch)", j, kit.Str(v), off, ln, cp, C)
		if p, pv := kit.Try(func() { w.AppendSample(v) }); p {
			res.Failf("%s: panic: %v", what, pv)
			return
		}
		if ln < cp {
			model[off+ln] = v
			// storage identity: the value must be in the root storage right now
			if got := root.Sample(off + ln); !kit.Same(got, v) {
				res.Failf("%s: root position %d reads %s after the append, want %s (storage no longer shared?)", what, off+ln, kit.Str(got), kit.Str(v))
				return
			}
			ln++
			if got := w.Sample(ln - 1); !kit.Same(got, v) {
				res.Failf("%s: buffer position Len-1=%d reads %s", what, ln-1, kit.Str(got))
				return
			}
		}
		if h, want := kit.HdrOf(w), kit.ModelHdr(C, ln, cp, bits); h != want {
			res.Failf("%s: header %+v, want %+v", what, h, want)
			return
		}
		if j%every == 0 || j == c.N-1 {
			if d := kit.DiffSlice("root storage", kit.Snap(root), model); d != "" {
				res.Failf("%s: %s", what, d)
				return
			}
		}
		if j == c.N/2 && c.Over == 0 {
			// the same frames of the parent sliced again, while the first window has grown: a second
			// window is another buffer, it has the original length and the appends do not move it
			first := root.Slice(c.A, c.B)
			if n0 := C * (c.B - c.A); n0 < cp {
				// ... and grown by one sample itself (it overwrites the first sample appended above)
				first.AppendSample(v)
				model[off+n0] = v
			}
			twin = root.Slice(c.A, c.B) // the very next Slice call on the parent, with identical bounds
			twinHdr = kit.ModelHdr(C, C*(c.B-c.A), cp, bits)
			if h := kit.HdrOf(twin); h != twinHdr {
				res.Failf("%s: slicing frames [%d,%d) of the parent again gave %+v, want %+v (the first window has Len %d by now)", what, c.A, c.B, h, twinHdr, ln)
				return
			}
			res.Class("sameFramesSlicedAgainMidway")
		}
	}
	if twin != nil {
		if h := kit.HdrOf(twin); h != twinHdr {
			res.Failf("after %d calls: the second window over the same frames changed from %+v to %+v although nothing was appended through it", c.N, twinHdr, h)
			return
		}
	}
	if d := kit.DiffSlice("root storage", kit.Snap(root), model); d != "" {
		res.Failf("after %d calls: %s", c.N, d)
		return
	}
	if h := kit.HdrOf(root); h != rootHdr {
		res.Failf("root header changed to %+v", h)
	}
	return
}

func FP(c *Case) uint64 {
	h := kit.NewHasher()
	h.Str(c.T)
	h.Ints([]int{c.C, c.Kr, c.A, c.B, c.N, c.Fix, c.Over, len(c.Vals), c.Ws, c.We})
	if c.Win {
		h.Int(1)
	}
	for _, v := range c.Vals {
		h.Int(int(v))
	}
	return h.Sum()
}

var names = append(kit.BuiltinNames(), kit.SomeNamed...)

func Gen(t *rapid.T) *Case {
	c := &Case{T: rapid.SampledFrom(names).Draw(t, "type"), C: kit.GenChannels(t)}
	c.Kr, c.A, c.B = kit.GenWindow(t, "w", 200)
	spare := c.C * (c.Kr - c.B)
	cp := c.C * (c.Kr - c.A)
	switch rapid.IntRange(0, 5).Draw(t, "nSel") {
	case 0:
		c.N = spare
	case 1:
		c.N = spare + 1
	case 2:
		if spare > 0 {
			c.N = rapid.IntRange(0, spare-1).Draw(t, "below")
		}
	case 3:
		c.N = 3*cp + 5
	default:
		c.N = rapid.IntRange(0, spare+2*c.C+3).Draw(t, "n")
	}
	c.Fix = rapid.IntRange(0, 2).Draw(t, "fix")
	if rapid.IntRange(0, 3).Draw(t, "overSel") == 0 {
		c.Over = rapid.IntRange(1, 3).Draw(t, "over")
	}
	if c.C >= 2 && c.C <= 64 && rapid.IntRange(0, 4).Draw(t, "grownSel") == 0 {
		// buffer produced by a growing Append with partial frames
		c.Fix, c.Kr = 3, 0
		c.A = rapid.IntRange(0, c.C-1).Draw(t, "pre")
		c.B = rapid.IntRange(1, 40).Draw(t, "srcSamples")
		c.N = rapid.IntRange(0, 3*c.C+20).Draw(t, "nGrown")
		if rapid.Bool().Draw(t, "grownWindow") {
			// a window of the grown buffer; frames beyond the storage make the case a no-op
			c.Win = true
			fr := (c.A+c.B)/c.C + 2
			c.Ws = rapid.IntRange(0, fr).Draw(t, "ws")
			c.We = rapid.IntRange(c.Ws, kitMin(fr, c.Ws+2)).Draw(t, "we")
		}
	}
	nv := rapid.IntRange(1, 6).Draw(t, "nvals")
	for i := 0; i < nv; i++ {
		c.Vals = append(c.Vals, int64(rapid.IntRange(0, 133).Draw(t, "v")))
	}
	return c
}

func kitMin(a, b int) int {
	if a < b {
		return a
	}
	return b
}

var Oracle = kit.Oracle[Case]{Property: Property, Gen: Gen, Check: Check, FP: FP}
