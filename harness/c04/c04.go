// Package c04 decides property C04: sample-at-a-time append never exceeds or
// changes the allocated capacity.
package c04

import (
	"fmt"

	"pgregory.net/rapid"
	"pipelined.dev/signal"
	"verif/harness/kit"
)

const Property = "C04"

// Case: window [A,B) of a root with Kr frames; N AppendSample calls; call j
// appends Vals[j % len(Vals)].
type Case struct {
	T    string  `json:"t"`
	C    int     `json:"c"`
	Kr   int     `json:"kr"`
	A    int     `json:"a"`
	B    int     `json:"b"`
	N    int     `json:"n"`
	Fix  int     `json:"fix,omitempty"` // fixture construction order, see kit.RootWindow
	Vals []int64 `json:"vals"`          // 0..127: representable in every element type
}

var table = map[string]func(*Case) kit.Result{}

func reg[T signal.SignalTypes](n string) { table[n] = run[T] }

func init() {
	reg[int]("int")
	reg[int8]("int8")
	reg[int16]("int16")
	reg[int32]("int32")
	reg[int64]("int64")
	reg[uint]("uint")
	reg[uint8]("uint8")
	reg[uint16]("uint16")
	reg[uint32]("uint32")
	reg[uint64]("uint64")
	reg[uintptr]("uintptr")
	reg[float32]("float32")
	reg[float64]("float64")
}

func Check(c *Case) kit.Result {
	f, ok := table[c.T]
	if !ok || c.C < 1 || c.Kr < 0 || c.A < 0 || c.A > c.B || c.B > c.Kr || c.C*c.Kr > 1<<20 || c.N < 0 || c.N > 1<<21 || len(c.Vals) == 0 || c.Fix < 0 || c.Fix > 2 {
		return kit.Result{}
	}
	for _, v := range c.Vals {
		if v < 0 || v > 127 {
			return kit.Result{}
		}
	}
	return f(c)
}

func run[T signal.SignalTypes](c *Case) (res kit.Result) {
	C := c.C
	root, w := kit.RootWindow[T](C, c.Kr, c.A, c.B, 0, c.Fix)
	model := kit.RootModel[T](C, c.Kr)
	rootHdr := kit.HdrOf(root)
	off, ln, cp := C*c.A, C*(c.B-c.A), C*(c.Kr-c.A)
	bits := kit.BitsOf[T]()
	if c.N > cp-ln {
		res.Class("crossesCapacity")
	}
	if c.A > 0 {
		res.Class("windowAtLaterFrame")
	}
	if cp == 0 {
		res.Class("zeroCapacity")
	}
	if C >= 2 && c.N > 0 && cp > ln {
		res.Class("partialFrames")
	}
	every := 1
	if c.N*len(model) > 1<<16 {
		every = c.N/16 + 1
	}
	for j := 0; j < c.N; j++ {
		v := T(c.Vals[j%len(c.Vals)])
		what := fmt.Sprintf("call %d AppendSample(%s) on window(off=%d,len=%d,cap=%d samples, %d ch)", j, kit.Str(v), off, ln, cp, C)
		if p, pv := kit.Try(func() { w.AppendSample(v) }); p {
			res.Failf("%s: panic: %v", what, pv)
			return
		}
		if ln < cp {
			model[off+ln] = v
			// storage identity: the value must be in the root storage right now
			if got := root.Sample(off + ln); !kit.Same(got, v) {
				res.Failf("%s: root position %d reads %s after the append, want %s (storage no longer shared?)", what, off+ln, kit.Str(got), kit.Str(v))
				return
			}
			ln++
			if got := w.Sample(ln - 1); !kit.Same(got, v) {
				res.Failf("%s: buffer position Len-1=%d reads %s", what, ln-1, kit.Str(got))
				return
			}
		}
		if h, want := kit.HdrOf(w), kit.ModelHdr(C, ln, cp, bits); h != want {
			res.Failf("%s: header %+v, want %+v", what, h, want)
			return
		}
		if j%every == 0 || j == c.N-1 {
			if d := kit.DiffSlice("root storage", kit.Snap(root), model); d != "" {
				res.Failf("%s: %s", what, d)
				return
			}
		}
	}
	if d := kit.DiffSlice("root storage", kit.Snap(root), model); d != "" {
		res.Failf("after %d calls: %s", c.N, d)
		return
	}
	if h := kit.HdrOf(root); h != rootHdr {
		res.Failf("root header changed to %+v", h)
	}
	return
}

func FP(c *Case) uint64 {
	h := kit.NewHasher()
	h.Str(c.T)
	h.Ints([]int{c.C, c.Kr, c.A, c.B, c.N, c.Fix, len(c.Vals)})
	for _, v := range c.Vals {
		h.Int(int(v))
	}
	return h.Sum()
}

var names = kit.BuiltinNames()

func Gen(t *rapid.T) *Case {
	c := &Case{T: rapid.SampledFrom(names).Draw(t, "type"), C: kit.GenChannels(t)}
	c.Kr, c.A, c.B = kit.GenWindow(t, "w", 200)
	spare := c.C * (c.Kr - c.B)
	cp := c.C * (c.Kr - c.A)
	switch rapid.IntRange(0, 5).Draw(t, "nSel") {
	case 0:
		c.N = spare
	case 1:
		c.N = spare + 1
	case 2:
		if spare > 0 {
			c.N = rapid.IntRange(0, spare-1).Draw(t, "below")
		}
	case 3:
		c.N = 3*cp + 5
	default:
		c.N = rapid.IntRange(0, spare+2*c.C+3).Draw(t, "n")
	}
	c.Fix = rapid.IntRange(0, 2).Draw(t, "fix")
	nv := rapid.IntRange(1, 6).Draw(t, "nvals")
	for i := 0; i < nv; i++ {
		c.Vals = append(c.Vals, int64(rapid.IntRange(0, 127).Draw(t, "v")))
	}
	return c
}

var Oracle = kit.Oracle[Case]{Property: Property, Gen: Gen, Check: Check, FP: FP}
