package c04

import (
	"testing"

	"verif/harness/kit"
)

func TestRegress(t *testing.T) { Oracle.Regress(t) }
func TestRapid(t *testing.T)   { Oracle.Rapid(t) }
func TestReplay(t *testing.T)  { Oracle.Replay(t) }
func FuzzC04(f *testing.F)     { Oracle.Fuzz(f) }

func TestSweep(t *testing.T) {
	env := kit.GetEnv(Property)
	rec := kit.NewRecorder(env, "sweep")
	defer func() { rec.Flush(!t.Failed()) }()
	maxK := env.Pick(3, 5)
	for _, tn := range names {
		for C := 1; C <= 4; C++ {
			for K := 0; K <= maxK; K++ {
				for a := 0; a <= K; a++ {
					for b := a; b <= K; b++ {
						spare := C * (K - b)
						for n := 0; n <= spare+C+1; n++ {
							Oracle.One(t, env, rec, "sweep", &Case{T: tn, C: C, Kr: K, A: a, B: b, N: n, Fix: (n + b) % 3, Vals: []int64{9, 0, 127}})
							if n == spare || n == 1 {
								Oracle.One(t, env, rec, "sweep", &Case{T: tn, C: C, Kr: K, A: a, B: b, N: n, Over: 1 + n%2, Vals: []int64{9, 0, 127}})
							}
						}
						Oracle.One(t, env, rec, "sweep", &Case{T: tn, C: C, Kr: K, A: a, B: b, N: 3*C*(K-a) + 5, Vals: []int64{9, 0, 127}})
					}
				}
			}
		}
	}
	// channel counts around 256 and 65536 (a count held in a narrower integer would wrap)
	for _, C := range []int{255, 256, 257, 65535, 65536, 65537} {
		for _, tn := range []string{"int8", "float64"} {
			Oracle.One(t, env, rec, "sweep", &Case{T: tn, C: C, Kr: 3, A: 1, B: 2, N: C + 5, Fix: 1, Vals: []int64{9, 0, 127}})
			Oracle.One(t, env, rec, "sweep", &Case{T: tn, C: C, Kr: 1, A: 0, B: 0, N: C + 2, Vals: []int64{5}})
		}
	}
	// buffers produced by a growing Append with partial frames (capacity possibly not a whole number of frames)
	for _, tn := range names {
		for C := 2; C <= 5; C++ {
			for pre := 0; pre < C; pre++ {
				for srcN := 1; srcN <= 3*C+2; srcN++ {
					Oracle.One(t, env, rec, "sweep", &Case{T: tn, C: C, A: pre, B: srcN, N: 4*C + 12, Fix: 3, Vals: []int64{9, 0, 127}})
					// windows of the grown buffer (Check skips frames beyond its storage)
					for ws := 0; ws <= (pre+srcN)/C+1; ws++ {
						for we := ws; we <= ws+1; we++ {
							Oracle.One(t, env, rec, "sweep", &Case{T: tn, C: C, A: pre, B: srcN, N: 4*C + 12, Fix: 3, Win: true, Ws: ws, We: we, Vals: []int64{9, 0, 127}})
						}
					}
				}
			}
		}
	}
	// zeros of both signs appended over each other (float types): the window overruns into a parent that holds the other zero
	for _, tn := range []string{"float32", "float64", "int16"} {
		for _, vals := range [][]int64{{128}, {128, 0}, {0, 128}, {128, 128, 0, 0}, {129, 130, 131, 132, 133}} {
			for fix := 0; fix <= 2; fix++ {
				Oracle.One(t, env, rec, "sweep", &Case{T: tn, C: 2, Kr: 4, A: 1, B: 2, N: 5, Fix: fix, Vals: vals})
			}
		}
	}
	// any number of calls: buffers of 70000..200000 samples filled one sample at a time, and beyond
	for i, tn := range []string{"int16", "float32", "uint8"} {
		C := 1 + i
		K := []int{70001, 40000, 66667}[i]
		Oracle.One(t, env, rec, "sweep", &Case{T: tn, C: C, Kr: K + 2, A: 1, B: 2, N: C*K + 40, Fix: i % 3, Vals: []int64{9, 0, 127, 3}})
	}
	rec.Exhaustive("13 types x C<=4 x root<=3(5) frames x all windows x every call count 0..spare+C+1 and 3*cap+5", true)
}
