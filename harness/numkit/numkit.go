// Package numkit holds the exact-arithmetic helpers of the numeric oracles
// (C06-C09) and the parallel sweep driver.
package numkit

import (
	"math"
	"math/big"
	"math/bits"
	"sync"
)

// Lo and Hi are the lowest and highest amplitude of a d-bit format.
func Lo(d int) int64 { return int64(-1) << (d - 1) }
func Hi(d int) int64 { return int64(1)<<(d-1) - 1 }

// FloorShift and CeilShift are floor(a/2^k) and ceil(a/2^k), 0 <= k < 64.
func FloorShift(a int64, k int) int64 { return a >> uint(k) }
func CeilShift(a int64, k int) int64 {
	f := a >> uint(k)
	if k > 0 && a&(int64(1)<<uint(k)-1) != 0 {
		f++
	}
	return f
}

// ScaledBounds returns, for a finite x with 0 < |x| < 1 and a full scale
// fs < 2^63, the integers P = floor(|x|*fs) and whether |x|*fs has a
// fractional part, computed exactly with a 128-bit product.
func ScaledBounds(x float64, fs uint64) (p uint64, frac bool) {
	fr, exp := math.Frexp(math.Abs(x)) // |x| = fr * 2^exp, fr in [0.5,1)
	m := uint64(fr * (1 << 53))        // exact: fr has 53 significant bits
	s := uint(53 - exp)                // |x| = m * 2^-s ; |x| < 1 => s >= 53
	hi, lo := bits.Mul64(m, fs)
	switch {
	case s >= 128:
		return 0, hi|lo != 0
	case s >= 64:
		sh := s - 64
		return hi >> sh, lo != 0 || hi&(uint64(1)<<sh-1) != 0
	default:
		return hi<<(64-s) | lo>>s, lo&(uint64(1)<<s-1) != 0
	}
}

// WithinOneStep reports whether amplitude A is within one quantisation step of
// x*FS for -1 < x < 1, x != 0, where FS = 2^(d-1)-1 for x>0 and 2^(d-1) for
// x<0; decided exactly.
func WithinOneStep(x float64, d int, A int64) bool {
	fs := uint64(Hi(d))
	if x < 0 {
		fs = uint64(1) << (d - 1)
		// |A - (-t)| <= 1  <=>  |(-A) - t| <= 1
		if A > 0 {
			return false // t > 0, so -t + 1 < 1
		}
	} else if A < 0 {
		return false // t > 0, so t - 1 > -1
	}
	p, frac := ScaledBounds(x, fs) // t = p + fraction, t > 0
	var b uint64                   // |A| with the sign of the target
	if A < 0 {
		b = uint64(-A) // also right for MinInt64 (2^63)
	} else {
		b = uint64(A)
	}
	lo := p // ceil(t)
	if frac {
		lo++
	}
	return b+1 >= lo && b <= p+1
}

// NormTolOK reports whether a floating result r (exact value of a float32 or
// float64) is within 2^-(d-1) + 4*ulp_D(1) of a/FS (FS sign-appropriate), exactly.
func NormTolOK(a int64, d int, r float64, dBits int) bool {
	if a == 0 {
		return r == 0
	}
	fs := new(big.Float).SetPrec(256)
	if a > 0 {
		fs.SetInt64(Hi(d))
	} else {
		fs.SetMantExp(big.NewFloat(1), d-1)
	}
	ulp := math.Ldexp(1, -52)
	if dBits == 32 {
		ulp = math.Ldexp(1, -23)
	}
	tol := new(big.Float).SetPrec(256).SetFloat64(math.Ldexp(1, -(d-1)) + 4*ulp) // exact: two powers of two within 53 bits when d<=50; recompute exactly otherwise
	if d > 50 {
		t1 := new(big.Float).SetPrec(256).SetMantExp(big.NewFloat(1), -(d - 1))
		t2 := new(big.Float).SetPrec(256).SetFloat64(4 * ulp)
		tol.Add(t1, t2)
	}
	// |r*fs - a| <= tol*fs
	lhs := new(big.Float).SetPrec(256).SetFloat64(r)
	lhs.Mul(lhs, fs)
	lhs.Sub(lhs, new(big.Float).SetPrec(256).SetInt64(a))
	lhs.Abs(lhs)
	rhs := new(big.Float).SetPrec(256).Mul(tol, fs)
	return lhs.Cmp(rhs) <= 0
}

// NormTolFast is the float64 fast path of NormTolOK for d <= 32: it returns
// (ok, decided). Undecided cases (inside the guard band) go to NormTolOK.
func NormTolFast(a int64, d int, r float64, dBits int) (ok, decided bool) {
	if d > 32 {
		return false, false
	}
	fs := float64(Hi(d))
	if a < 0 {
		fs = math.Ldexp(1, d-1)
	}
	ulp := math.Ldexp(1, -52)
	if dBits == 32 {
		ulp = math.Ldexp(1, -23)
	}
	lim := (math.Ldexp(1, -(d-1)) + 4*ulp) * fs
	diff := math.Abs(r*fs - float64(a))
	switch {
	case diff <= lim-1e-3:
		return true, true
	case diff >= lim+1e-3:
		return false, true
	}
	return false, false
}

// Parallel splits [0,total) into chunks and runs fn on `workers` goroutines.
// fn returns false to stop everything early.
func Parallel(total, chunk uint64, workers int, fn func(lo, hi uint64) bool) {
	var mu sync.Mutex
	next := uint64(0)
	stop := false
	var wg sync.WaitGroup
	for w := 0; w < workers; w++ {
		wg.Add(1)
		go func() {
			defer wg.Done()
			for {
				mu.Lock()
				if stop || next >= total {
					mu.Unlock()
					return
				}
				lo := next
				hi := lo + chunk
				if hi > total || hi < lo {
					hi = total
				}
				next = hi
				mu.Unlock()
				if !fn(lo, hi) {
					mu.Lock()
					stop = true
					mu.Unlock()
					return
				}
			}
		}()
	}
	wg.Wait()
}

// OrderedFloat32 maps an index 0..2^32-1 to float32 bit patterns in increasing
// numeric order: -Inf region first (NaNs with the sign bit come first and are
// reported as NaN), then negatives up to -0, +0, positives, +Inf, NaNs.
// Index i < 2^31 -> bits 0xFFFFFFFF - i (negative half, increasing value);
// index i >= 2^31 -> bits i - 2^31 (positive half).
func OrderedFloat32(i uint64) float32 {
	if i < 1<<31 {
		return math.Float32frombits(uint32(0xFFFFFFFF - i))
	}
	return math.Float32frombits(uint32(i - 1<<31))
}
