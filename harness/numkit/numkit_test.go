package numkit

import (
	"math"
	"math/big"
	"testing"

	"pgregory.net/rapid"
)

// The exact helpers are themselves checked against math/big.
func TestWithinOneStepAgainstBig(t *testing.T) {
	rapid.Check(t, func(t *rapid.T) {
		d := rapid.SampledFrom([]int{8, 16, 32, 64}).Draw(t, "d")
		x := rapid.Float64Range(-1, 1).Draw(t, "x")
		if rapid.Bool().Draw(t, "tiny") {
			x = math.Ldexp(x, -rapid.IntRange(0, 200).Draw(t, "e"))
		}
		if x == 0 || x >= 1 || x <= -1 {
			return
		}
		fs := new(big.Rat).SetInt64(Hi(d))
		if x < 0 {
			fs.SetInt(new(big.Int).Lsh(big.NewInt(1), uint(d-1)))
		}
		target := new(big.Rat).SetFloat64(x)
		target.Mul(target, fs)
		fl := new(big.Int).Div(target.Num(), target.Denom()) // floor for positive denominators (Euclidean)
		base := fl.Int64()
		for off := int64(-3); off <= 3; off++ {
			A := base + off
			diff := new(big.Rat).Sub(new(big.Rat).SetInt64(A), target)
			diff.Abs(diff)
			want := diff.Cmp(big.NewRat(1, 1)) <= 0
			if got := WithinOneStep(x, d, A); got != want {
				t.Fatalf("WithinOneStep(%v,%d,%d)=%v want %v (target %s)", x, d, A, got, want, target.FloatString(5))
			}
		}
	})
}

func TestOrderedFloat32(t *testing.T) {
	prev := float32(math.Inf(-1))
	n := 0
	for i := uint64(0); i < 1<<32; i += 65521 {
		f := OrderedFloat32(i)
		if f != f {
			continue
		}
		if f < prev {
			t.Fatalf("not increasing at %d", i)
		}
		prev = f
		n++
	}
	if n < 60000 {
		t.Fatal("too few")
	}
}
