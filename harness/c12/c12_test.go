package c12

import (
	"runtime"
	"sync"
	"sync/atomic"
	"testing"

	"verif/harness/kit"
)

func TestRegress(t *testing.T) { Oracle.Regress(t) }
func TestRapid(t *testing.T)   { Oracle.Rapid(t) }
func TestReplay(t *testing.T)  { Oracle.Replay(t) }

// enumerate lists every operation of the small alphabet applicable in the
// simulator's current state (C fixed, capacity <= maxCapF frames).
func enumerate(s *Sim, C, maxViews int) []Op {
	var ops []Op
	nv := len(s.views)
	if nv < maxViews {
		for _, lk := range [][2]int{{0, 1}, {1, 1}, {1, 2}} {
			ops = append(ops, Op{Kind: "alloc", C: C, A: lk[0], B: lk[1]})
		}
	}
	for vi, v := range s.views {
		capF := v.cp / v.c
		if nv < maxViews {
			for a := 0; a <= capF; a++ {
				for b := a; b <= capF; b++ {
					ops = append(ops, Op{Kind: "slice", V: vi, A: a, B: b})
				}
			}
		}
		ops = append(ops, Op{Kind: "slice", V: vi, A: 0, B: capF + 1}) // must panic
		ops = append(ops, Op{Kind: "appendSample", V: vi})
		for wi := range s.views {
			ops = append(ops, Op{Kind: "append", V: vi, W: wi})
		}
		ops = append(ops, Op{Kind: "write", V: vi, A: v.ln + 1})
		if v.ln%v.c == 0 && v.ln > 0 {
			ops = append(ops, Op{Kind: "writeStriped", V: vi, A: v.ln / v.c, B: 1})
		}
		if v.ln > 0 {
			ops = append(ops, Op{Kind: "set", V: vi, A: 0})
			if v.ln > 1 {
				ops = append(ops, Op{Kind: "set", V: vi, A: v.ln - 1})
			}
		}
	}
	return ops
}

type dfs struct {
	t        *testing.T
	env      kit.Env
	rec      *kit.Recorder
	T        string
	C        int
	maxViews int
	maxCapF  int
	depth    int
	nodes    atomic.Int64
	nontriv  atomic.Int64
	failed   atomic.Bool
	mu       sync.Mutex
	failCase *Case
}

// visit replays prefix, verifies after its last step, and expands.
func (d *dfs) visit(prefix []Op) {
	if d.failed.Load() {
		return
	}
	var res kit.Result
	s := NewSim(d.T, d.maxViews, &res)
	applied := true
	for i, op := range prefix {
		applied = s.Apply(op)
		if res.Fail != "" {
			break
		}
		if i == len(prefix)-1 && applied {
			s.Verify("after the last step")
		}
	}
	d.nodes.Add(1)
	if len(res.Classes) > 0 {
		d.nontriv.Add(1)
	}
	if res.Fail != "" {
		if d.failed.CompareAndSwap(false, true) {
			d.mu.Lock()
			d.failCase = &Case{T: d.T, MaxViews: d.maxViews, Ops: append([]Op(nil), prefix...)}
			d.mu.Unlock()
		}
		return
	}
	if !applied || len(prefix) >= d.depth+1 {
		return
	}
	// bound the alphabet: storages stay within maxCapF frames
	for _, v := range s.views {
		if v.cp/v.c > d.maxCapF+2 {
			return
		}
	}
	for _, op := range enumerate(s, d.C, d.maxViews) {
		d.visit(append(prefix[:len(prefix):len(prefix)], op))
	}
}

// TestSweep: bounded-exhaustive DFS over all operation sequences up to a depth
// (after the initial allocation) for 1-3 channels, capacity <= 4 frames, <= 6 views.
func TestSweep(t *testing.T) {
	env := kit.GetEnv(Property)
	rec := kit.NewRecorder(env, "sweep")
	defer func() { rec.Flush(!t.Failed()) }()
	depth := env.Pick(3, 4)
	inits := [][2]int{{0, 2}, {1, 2}, {2, 3}, {1, 4}}
	var total, nontriv int64
	for C := 1; C <= 3; C++ {
		for ii, lk := range inits {
			tn := Types[(C+ii)%len(Types)]
			d := &dfs{t: t, env: env, rec: rec, T: tn, C: C, maxViews: 6, maxCapF: 4, depth: depth}
			first := Op{Kind: "alloc", C: C, A: lk[0], B: lk[1]}
			// split by first operation over the cores
			var res kit.Result
			s0 := NewSim(tn, 6, &res)
			s0.Apply(first)
			firstOps := enumerate(s0, C, 6)
			d.nodes.Add(1)
			sem := make(chan struct{}, runtime.NumCPU())
			var wg sync.WaitGroup
			for _, op := range firstOps {
				wg.Add(1)
				sem <- struct{}{}
				go func(op Op) {
					defer wg.Done()
					defer func() { <-sem }()
					d.visit([]Op{first, op})
				}(op)
			}
			wg.Wait()
			if d.failed.Load() {
				Oracle.One(t, env, rec, "sweep", d.failCase)
				t.Fatalf("HARNESS-ERROR: DFS failure not reproduced by the case oracle: %+v", d.failCase)
			}
			total += d.nodes.Load()
			nontriv += d.nontriv.Load()
			rec.Sample(map[string]any{"t": tn, "channels": C, "initial": first, "depth_after_initial": depth, "sequences": d.nodes.Load(), "example_first_ops": firstOps[:kit.Min(4, len(firstOps))]})
		}
	}
	rec.Bulk("dfsHistories", total, nontriv)
	rec.Note("dfs_transitions", total)
	rec.Note("dfs_depth_after_initial_alloc", depth)
	// one Append between two windows of a parent of 70000..280000 samples: in place with the source
	// before, overlapping (either direction) and behind the region written, and growing
	for i, tn := range []string{"int16", "float32", "int64", "NInt16"} {
		C := 1 + i%3
		K := (70000 << uint(i%3)) / C
		for _, b := range []Big{
			{H: K / 3, S: K/3 - 2, N: K / 2},           // source starts two frames before the region written and runs through it
			{H: K / 4, S: K/4 - K/8, N: K / 2},         // starts far before it
			{H: K / 4, S: K / 4, N: K / 2},             // starts exactly at the destination's end
			{H: K / 4, S: K/4 + 3, N: K / 2},           // starts inside the region written
			{H: K / 2, S: 0, N: K / 2},                 // ends exactly where the region starts: no overlap
			{H: K / 2, S: 1, N: K / 2},                 // overlaps by one frame
			{H: K - 5, S: 0, N: K - 7},                 // does not fit: moves to new storage
			{H: K / 3, S: K/3 - 1, N: K - K/3 - K/3%7}, // fills the capacity (nearly) to the end
		} {
			b.C, b.K = C, K
			if b.S+b.N > K {
				b.N = K - b.S
			}
			bb := b
			Oracle.One(t, env, rec, "sweep", &Case{T: tn, MaxViews: 2, Big: &bb})
		}
	}
	rec.Exhaustive("all operation sequences up to depth 3 (quick) / 4 (thorough) after the initial allocation over the alphabet {alloc 3 shapes, every valid Slice and one invalid, AppendSample, Append of every ordered view pair, Write, SetSample first/last}, 1-3 channels, <= 6 live views, 4 initial shapes", true)
}

// decode turns fuzzer bytes into a history, one or two bytes per choice.
func decode(data []byte) *Case {
	if len(data) < 3 {
		return nil
	}
	c := &Case{T: Types[int(data[0])%len(Types)], MaxViews: 6}
	C := 1 + int(data[1])%3
	k0 := int(data[2]) % 5
	c.Ops = append(c.Ops, Op{Kind: "alloc", C: C, A: int(data[2]>>4) % (k0 + 1), B: k0})
	kinds := []string{"alloc", "slice", "appendSample", "append", "write", "set", "drop", "writeStriped"}
	for i := 3; i+1 < len(data) && len(c.Ops) < 64; i += 2 {
		a, b := int(data[i]), int(data[i+1])
		op := Op{Kind: kinds[a%8], V: (a >> 3) % 6}
		switch op.Kind {
		case "alloc":
			op.C, op.B = C, b%5
			op.A = (b >> 4) % (op.B + 1)
		case "slice":
			op.A, op.B = b%6-1, (b>>4)%7-1
		case "append":
			op.W = b % 6
		case "write":
			op.A = b % 16
		case "writeStriped":
			op.A, op.B = b%6, b>>4
		case "set":
			op.A = b
		}
		c.Ops = append(c.Ops, op)
	}
	return c
}

func FuzzC12(f *testing.F) {
	env := kit.GetEnv(Property)
	f.Add([]byte{0, 2, 1, 2, 0, 2, 0, 3, 0})
	f.Add([]byte{1, 0, 0x24, 1, 0x21, 2, 0, 10, 0, 3, 1})
	f.Add([]byte{6, 1, 3, 2, 0, 2, 0, 2, 0, 2, 0, 3, 0})
	f.Fuzz(func(t *testing.T, data []byte) {
		c := decode(data)
		if c == nil {
			return
		}
		res := Oracle.Safe(c)
		if res.Fail != "" {
			kit.Fail(t, env, "fuzz", c, res.Fail)
		}
	})
}
