// Package c12 decides property C12: views behave exactly like Go slices under
// any history of allocations, slicings, appends and writes.
package c12

import (
	"fmt"
	"math"

	"pgregory.net/rapid"
	"pipelined.dev/signal"
	"verif/harness/kit"
)

const Property = "C12"

// Op is one step of a history. V and W select live views (modulo their number).
//
//	alloc:        new buffer with C channels, A frames of length, B frames of capacity (A <= B)
//	slice:        views[V].Slice(A, B) becomes a new view (invalid ranges must panic and change nothing)
//	appendSample: views[V].AppendSample(fresh stamp)
//	append:       views[V].Append(views[W])  (skipped when channel counts differ or the source overlaps the write region)
//	write:        Write(A fresh stamps, views[V])
//	writeStriped: WriteStriped into views[V] (frame-aligned views only): channel ch gets A, A-1 or no (nil) samples by (ch+B) mod 3
//	set:          views[V].SetSample(A mod Len, fresh stamp)
//	drop:         forget views[V]
type Op struct {
	Kind string `json:"kind"`
	V    int    `json:"v,omitempty"`
	W    int    `json:"w,omitempty"`
	A    int    `json:"a,omitempty"`
	B    int    `json:"b,omitempty"`
	C    int    `json:"c,omitempty"`
}

type Case struct {
	T        string `json:"t"`
	MaxViews int    `json:"maxViews"`
	Ops      []Op   `json:"ops"`
	// Big (instead of Ops): one Append between two windows of a parent far larger than the
	// histories' buffers (which end at 2^16 samples), see checkBig.
	Big *Big `json:"big,omitempty"`
}

// Big: a parent of C channels and K frames filled with position-coded samples;
// dst = parent.Slice(0,H), src = parent.Slice(S,S+N); dst.Append(src). In place
// when H+N <= K (the source may overlap the region written, in either
// direction), to new storage otherwise.
type Big struct {
	C int `json:"c"`
	K int `json:"k"`
	H int `json:"h"`
	S int `json:"s"`
	N int `json:"n"`
}

func checkBig(c *Case) (res kit.Result) {
	b := c.Big
	if b.C < 1 || b.C > 8 || b.K < 1 || b.C*b.K > 1<<21 || b.H < 0 || b.H > b.K || b.S < 0 || b.N < 0 || b.S+b.N > b.K {
		return
	}
	C := b.C
	parent := kit.AllocAny(c.T, signal.Allocator{Channels: C, Length: b.K, Capacity: b.K})
	for i := 0; i < C*b.K; i++ {
		parent.Set(i, kit.IV(int64(1+i%113)))
	}
	model := parent.Snap()
	dst, src := parent.Slice(0, b.H), parent.Slice(b.S, b.S+b.N)
	// the plain-Go-slice reference: append(model[:C*H], model[C*S:C*(S+N)]...)
	var moved []kit.Val
	if b.H+b.N <= b.K {
		copy(model[C*b.H:C*(b.H+b.N)], model[C*b.S:C*(b.S+b.N)]) // memmove semantics, as append has
	} else {
		moved = append(append([]kit.Val(nil), model[:C*b.H]...), model[C*b.S:C*(b.S+b.N)]...)
	}
	what := fmt.Sprintf("parent of %d x %d, Slice(0,%d).Append(Slice(%d,%d))", C, b.K, b.H, b.S, b.S+b.N)
	if p, v := kit.Try(func() { dst.Append(src) }); p {
		res.Failf("%s panicked: %v", what, v)
		return
	}
	if h := dst.Hdr(); h.Len != C*(b.H+b.N) || h.Length != b.H+b.N || h.Channels != C {
		res.Failf("%s: destination reports %+v, want length %d frames", what, h, b.H+b.N)
		return
	}
	if d := kit.DiffVals("parent storage", parent.Snap(), model); d != "" {
		res.Failf("%s: %s (plain Go slices: append copies with memmove semantics%s)", what, d, map[bool]string{true: "", false: "; a growing append leaves the old storage alone"}[moved == nil])
		return
	}
	if moved != nil {
		if d := kit.DiffVals("destination after moving to new storage", dst.Snap(), moved); d != "" {
			res.Failf("%s: %s", what, d)
			return
		}
		res.Class("bigGrowingAppend")
	} else {
		res.Class("bigAppendInPlace")
		if b.S < b.H+b.N && b.H < b.S+b.N && b.N > 0 {
			res.Class("bigSourceOverlapsTheRegionWritten")
		}
	}
	if C*b.N > 1<<16 {
		res.Class("moreThan65536SamplesAppended")
	}
	return
}

var Types = []string{"int8", "uint16", "int32", "int64", "uint64", "float32", "float64", "NInt16", "NFloat32"}

// view is the Go-slice model of a buffer header: a window of a plain storage slice.
type view struct {
	buf         kit.AnyBuf
	sid         int // storage id
	off, ln, cp int // in samples
	c           int
	bornShared  bool // created while another view of the same storage was alive
}

// Sim executes a history on the implementation and on the model side by side.
type Sim struct {
	T        string
	MaxViews int
	stor     [][]kit.Val
	views    []*view
	stamp    int
	res      *kit.Result
	zero     kit.Val
	isFloat  bool
}

func NewSim(t string, maxViews int, res *kit.Result) *Sim {
	s := &Sim{T: t, MaxViews: maxViews, res: res, isFloat: kit.Info(t).Kind == kit.Float}
	s.zero = kit.AllocAny(t, signal.Allocator{Channels: 1, Length: 1, Capacity: 1}).Get(0)
	return s
}

func (s *Sim) fresh() kit.Val {
	s.stamp++
	if s.isFloat && s.stamp%5 == 3 {
		// -0.0 compares equal to 0 but is a different sample; a plain Go slice copies it bit for bit
		return kit.FV(math.Copysign(0, -1))
	}
	return kit.IV(int64(1 + s.stamp%120))
}

// store converts a stamp to the value as the element type holds it.
func (s *Sim) conv(v kit.Val) kit.Val {
	b := kit.AllocAny(s.T, signal.Allocator{Channels: 1, Length: 1, Capacity: 1})
	b.Set(0, v)
	return b.Get(0)
}

func (s *Sim) pick(i int) *view {
	if len(s.views) == 0 {
		return nil
	}
	return s.views[((i%len(s.views))+len(s.views))%len(s.views)]
}

func (s *Sim) sharers(v *view) int {
	n := 0
	for _, o := range s.views {
		if o != v && o.sid == v.sid {
			n++
		}
	}
	return n
}

// Apply executes one op. It returns false if the op was skipped (not
// applicable in the current state) and sets s.res.Fail on a violation.
func (s *Sim) Apply(op Op) bool {
	res := s.res
	switch op.Kind {
	case "alloc":
		if len(s.views) >= s.MaxViews || op.C < 1 || op.C > 8 || op.A < 0 || op.A > op.B || op.B > 64 {
			return false
		}
		b := kit.AllocAny(s.T, signal.Allocator{Channels: op.C, Length: op.A, Capacity: op.B})
		st := make([]kit.Val, op.C*op.B)
		for i := range st {
			st[i] = s.zero
		}
		s.stor = append(s.stor, st)
		s.views = append(s.views, &view{buf: b, sid: len(s.stor) - 1, off: 0, ln: op.C * op.A, cp: op.C * op.B, c: op.C})
		return true
	case "slice":
		v := s.pick(op.V)
		if v == nil {
			return false
		}
		capF := v.cp / v.c
		valid := 0 <= op.A && op.A <= op.B && op.B <= capF
		if valid && len(s.views) >= s.MaxViews {
			return false
		}
		var child kit.AnyBuf
		panicked, pv := kit.Try(func() { child = v.buf.Slice(op.A, op.B) })
		if !valid {
			if !panicked {
				res.Failf("Slice(%d,%d) on a view with capacity %d frames returned a view instead of panicking", op.A, op.B, capF)
			}
			res.Class("invalidSliceRejected")
			return true
		}
		if panicked {
			res.Failf("Slice(%d,%d) on a view with len %d cap %d samples (%d ch) panicked: %v", op.A, op.B, v.ln, v.cp, v.c, pv)
			return true
		}
		if op.B*v.c > v.ln {
			res.Class("sliceBeyondLength")
		}
		nv := &view{buf: child, sid: v.sid, off: v.off + v.c*op.A, ln: v.c * (op.B - op.A), cp: v.cp - v.c*op.A, c: v.c, bornShared: true}
		s.views = append(s.views, nv)
		return true
	case "appendSample":
		v := s.pick(op.V)
		if v == nil {
			return false
		}
		x := s.fresh()
		if p, pv := kit.Try(func() { v.buf.AppendSample(x) }); p {
			res.Failf("AppendSample panicked: %v", pv)
			return true
		}
		if v.ln < v.cp {
			s.stor[v.sid][v.off+v.ln] = s.conv(x)
			v.ln++
			if s.sharers(v) > 0 {
				res.Class("mutationThroughSharedView")
				// does the new sample fall into another view's window?
				for _, o := range s.views {
					if o != v && o.sid == v.sid && o.off <= v.off+v.ln-1 && v.off+v.ln-1 < o.off+o.cp {
						res.Class("appendSampleIntoSiblingRange")
					}
				}
			}
		}
		return true
	case "append":
		dst, src := s.pick(op.V), s.pick(op.W)
		if dst == nil || src.c != dst.c {
			return false
		}
		n := src.ln
		if dst.ln+n > 1<<16 {
			return false // repeated self-appends double the length; keep histories small
		}
		inPlace := dst.ln+n <= dst.cp
		if inPlace && src != dst && src.sid == dst.sid && n > 0 {
			// the source's readable window may overlap the region written: a plain Go
			// append(dst, src...) copies with memmove semantics, i.e. appends the source's
			// samples as they were before the call (the model below captures them first)
			wlo, whi := dst.off+dst.ln, dst.off+dst.ln+n
			if src.off < whi && wlo < src.off+src.ln {
				res.Class("sourceOverlapsTheRegionWritten")
			}
		}
		add := append([]kit.Val(nil), s.stor[src.sid][src.off:src.off+src.ln]...)
		had := s.sharers(dst)
		if p, pv := kit.Try(func() { dst.buf.Append(src.buf) }); p {
			res.Failf("Append of %d samples to a view with len %d cap %d (%d ch) panicked: %v", n, dst.ln, dst.cp, dst.c, pv)
			return true
		}
		if inPlace {
			copy(s.stor[dst.sid][dst.off+dst.ln:], add)
			dst.ln += n
			// The library keeps capacities a whole number of frames: an in-place
			// append may trim a capacity that is not frame-aligned (reachable only
			// after growing a buffer that ends in a partial frame) down to the
			// frame multiple. Both the Go-slice capacity and the aligned one are
			// accepted; the model follows the implementation.
			if hc := dst.buf.Hdr().Cap; hc != dst.cp {
				if hc != dst.cp-dst.cp%dst.c || hc < dst.ln {
					res.Failf("in-place Append changed Cap from %d to %d (len %d, %d ch)", dst.cp, hc, dst.ln, dst.c)
					return true
				}
				dst.cp = hc
				res.Class("unalignedCapacityTrimmedInPlace")
			}
			if had > 0 && n > 0 {
				res.Class("mutationThroughSharedView")
			}
		} else {
			// moved to fresh storage; its capacity is the implementation's choice
			h := dst.buf.Hdr()
			if h.Cap < dst.ln+n {
				res.Failf("Append grew the buffer to Cap %d < new Len %d", h.Cap, dst.ln+n)
				return true
			}
			if (dst.ln+n)%dst.c == 0 && h.Cap%dst.c != 0 {
				res.Failf("Append grew a frame-aligned buffer to Cap %d, not a whole number of %d-channel frames", h.Cap, dst.c)
				return true
			}
			st := make([]kit.Val, h.Cap)
			copy(st, s.stor[dst.sid][dst.off:dst.off+dst.ln])
			copy(st[dst.ln:], add)
			for i := dst.ln + n; i < h.Cap; i++ {
				st[i] = s.zero
			}
			s.stor = append(s.stor, st)
			if had > 0 {
				res.Class("growingAppendWithLiveOldStorageView")
			}
			dst.sid, dst.off, dst.ln, dst.cp = len(s.stor)-1, 0, dst.ln+n, h.Cap
		}
		if src == dst && n > 0 {
			res.Class("selfAppend")
		}
		return true
	case "write":
		v := s.pick(op.V)
		if v == nil || op.A < 0 || op.A > 4096 {
			return false
		}
		data := make([]kit.Val, op.A)
		for i := range data {
			data[i] = s.fresh()
		}
		m := kit.Min(op.A, v.ln)
		var ret int
		if p, pv := kit.Try(func() { ret = v.buf.WriteVals(data) }); p {
			res.Failf("Write of %d values into a view with len %d panicked: %v", op.A, v.ln, pv)
			return true
		}
		if ret != kit.CeilDiv(m, v.c) {
			res.Failf("Write of %d values into a view with len %d (%d ch) returned %d, want %d", op.A, v.ln, v.c, ret, kit.CeilDiv(m, v.c))
			return true
		}
		for k := 0; k < m; k++ {
			s.stor[v.sid][v.off+k] = s.conv(data[k])
		}
		if m > 0 && s.sharers(v) > 0 {
			res.Class("mutationThroughSharedView")
		}
		return true
	case "writeStriped":
		v := s.pick(op.V)
		if v == nil || op.A < 0 || op.A > 4096 || v.ln%v.c != 0 {
			return false
		}
		in := make([][]kit.Val, v.c)
		longest := 0
		for ch := range in {
			n := -1
			switch (ch + op.B) % 3 {
			case 0:
				n = op.A
			case 1:
				n = kit.Max(op.A-1, 0)
			}
			if n < 0 {
				continue
			}
			in[ch] = make([]kit.Val, n)
			for i := range in[ch] {
				in[ch][i] = s.fresh()
			}
			longest = kit.Max(longest, n)
		}
		m := kit.Min(longest, v.ln/v.c)
		var ret int
		if p, pv := kit.Try(func() { ret = v.buf.WriteStripedVals(in) }); p {
			res.Failf("WriteStriped into a view with %d frames (%d ch) panicked: %v", v.ln/v.c, v.c, pv)
			return true
		}
		if ret != m {
			res.Failf("WriteStriped (longest channel %d) into a view with %d frames returned %d, want %d", longest, v.ln/v.c, ret, m)
			return true
		}
		for ch := 0; ch < v.c; ch++ {
			for i := 0; i < m; i++ {
				if i < len(in[ch]) {
					s.stor[v.sid][v.off+v.c*i+ch] = s.conv(in[ch][i])
				} else {
					s.stor[v.sid][v.off+v.c*i+ch] = s.zero
				}
			}
		}
		if m > 0 && s.sharers(v) > 0 {
			res.Class("mutationThroughSharedView")
		}
		res.Class("stripedWriteInHistory")
		return true
	case "set":
		v := s.pick(op.V)
		if v == nil || v.ln == 0 || op.A < 0 {
			return false
		}
		i := op.A % v.ln
		x := s.fresh()
		if p, pv := kit.Try(func() { v.buf.Set(i, x) }); p {
			res.Failf("SetSample(%d) on a view with len %d panicked: %v", i, v.ln, pv)
			return true
		}
		s.stor[v.sid][v.off+i] = s.conv(x)
		if s.sharers(v) > 0 {
			res.Class("mutationThroughSharedView")
		}
		return true
	case "drop":
		if len(s.views) <= 1 {
			return false
		}
		i := ((op.V % len(s.views)) + len(s.views)) % len(s.views)
		s.views = append(s.views[:i], s.views[i+1:]...)
		return true
	}
	return false
}

// Verify compares every live view with the model: header, every sample in
// [0,Len) and, through a capacity-long reslice, every position in [Len,Cap).
func (s *Sim) Verify(what string) bool {
	bits := kit.Info(s.T).Bits
	for vi, v := range s.views {
		want := kit.ModelHdr(v.c, v.ln, v.cp, bits)
		if h := v.buf.Hdr(); h != want {
			s.res.Failf("%s: view %d reports %+v, the Go-slice model says %+v", what, vi, h, want)
			return false
		}
		if m := kit.RawMismatch(v.buf.Raw(), want); m != "" && v.cp%v.c == 0 {
			s.res.Failf("%s: view %d: %s", what, vi, m)
			return false
		}
		st := s.stor[v.sid]
		for k := 0; k < v.ln; k++ {
			if got := v.buf.Get(k); !kit.SameVal(got, st[v.off+k]) {
				s.res.Failf("%s: view %d (storage %d, off %d, len %d, cap %d, %d ch) sample %d reads %s, model %s", what, vi, v.sid, v.off, v.ln, v.cp, v.c, k, got, st[v.off+k])
				return false
			}
		}
		// the readers agree with Sample
		if rd, n := v.buf.ReadVals(v.ln); n != kit.CeilDiv(v.ln, v.c) || kit.DiffVals("Read", rd, st[v.off:v.off+v.ln]) != "" {
			s.res.Failf("%s: view %d: Read returned count %d and %s", what, vi, n, kit.DiffVals("contents", rd, st[v.off:v.off+v.ln]))
			return false
		}
		capF := v.cp / v.c
		var ext kit.AnyBuf
		if p, pv := kit.Try(func() { ext = v.buf.Slice(0, capF) }); p {
			s.res.Failf("%s: view %d: Slice(0, Capacity=%d) panicked: %v", what, vi, capF, pv)
			return false
		}
		if ext.Len() != capF*v.c {
			s.res.Failf("%s: view %d: capacity-long reslice has Len %d, want %d", what, vi, ext.Len(), capF*v.c)
			return false
		}
		for k := v.ln; k < capF*v.c; k++ {
			if got := ext.Get(k); !kit.SameVal(got, st[v.off+k]) {
				s.res.Failf("%s: view %d (storage %d, off %d, len %d, cap %d) capacity position %d reads %s, model %s", what, vi, v.sid, v.off, v.ln, v.cp, k, got, st[v.off+k])
				return false
			}
		}
	}
	return true
}

func Check(c *Case) (res kit.Result) {
	okT := false
	for _, t := range Types {
		okT = okT || t == c.T
	}
	if !okT || c.MaxViews < 1 || c.MaxViews > 12 || len(c.Ops) > 2000 {
		return
	}
	if c.Big != nil {
		return checkBig(c)
	}
	s := NewSim(c.T, c.MaxViews, &res)
	for oi, op := range c.Ops {
		if !s.Apply(op) {
			continue
		}
		if res.Fail != "" {
			res.Fail = fmt.Sprintf("step %d %+v: %s", oi, op, res.Fail)
			return
		}
		if !s.Verify(fmt.Sprintf("after step %d %+v", oi, op)) {
			return
		}
	}
	return
}

func FP(c *Case) uint64 {
	h := kit.NewHasher()
	h.Str(c.T)
	h.Int(c.MaxViews)
	h.Int(len(c.Ops))
	if b := c.Big; b != nil {
		h.Ints([]int{b.C, b.K, b.H, b.S, b.N})
	}
	for _, op := range c.Ops {
		h.Str(op.Kind)
		h.Ints([]int{op.V, op.W, op.A, op.B, op.C})
	}
	return h.Sum()
}

var genKinds = []string{"alloc", "slice", "slice", "slice", "appendSample", "appendSample", "append", "append", "write", "writeStriped", "set", "set", "drop"}

func Gen(t *rapid.T) *Case {
	c := &Case{T: rapid.SampledFrom(Types).Draw(t, "type"), MaxViews: rapid.IntRange(2, 8).Draw(t, "maxViews")}
	if kit.Chance(t, "big", 1, 250) {
		b := &Big{C: rapid.IntRange(1, 4).Draw(t, "bigC")}
		b.K = rapid.IntRange(66000, 400000).Draw(t, "bigSamples")/b.C + 1
		b.H = rapid.IntRange(0, b.K).Draw(t, "bigH")
		b.S = rapid.IntRange(0, b.K).Draw(t, "bigS")
		if rapid.Bool().Draw(t, "bigNear") { // source starting a few frames before the destination's end
			b.S = kit.Max(0, b.H-rapid.IntRange(0, 9).Draw(t, "bigLead"))
		}
		b.N = rapid.IntRange(0, b.K-b.S).Draw(t, "bigN")
		if rapid.Bool().Draw(t, "bigFit") && b.K-b.H < b.N { // prefer in-place appends
			b.N = rapid.IntRange(0, kit.Min(b.K-b.H, b.K-b.S)).Draw(t, "bigNFit")
		}
		c.Big = b
		return c
	}
	mainC := rapid.IntRange(1, 8).Draw(t, "mainC")
	maxK := rapid.SampledFrom([]int{4, 8, 64}).Draw(t, "maxK")
	k0 := rapid.IntRange(0, maxK).Draw(t, "k0")
	c.Ops = append(c.Ops, Op{Kind: "alloc", C: mainC, A: rapid.IntRange(0, k0).Draw(t, "l0"), B: k0})
	n := rapid.IntRange(1, 200).Draw(t, "nops")
	for i := 0; i < n; i++ {
		op := Op{Kind: rapid.SampledFrom(genKinds).Draw(t, "kind")}
		op.V = rapid.IntRange(0, 7).Draw(t, "v")
		switch op.Kind {
		case "alloc":
			op.C = mainC
			if rapid.IntRange(0, 5).Draw(t, "otherC") == 0 {
				op.C = rapid.IntRange(1, 8).Draw(t, "c")
			}
			op.B = rapid.IntRange(0, maxK).Draw(t, "k")
			op.A = rapid.IntRange(0, op.B).Draw(t, "l")
		case "slice":
			op.A = rapid.IntRange(-1, maxK+1).Draw(t, "s")
			if rapid.IntRange(0, 9).Draw(t, "badOrder") == 0 {
				op.B = rapid.IntRange(-1, maxK+1).Draw(t, "e")
			} else {
				op.B = op.A + rapid.IntRange(0, maxK).Draw(t, "d")
			}
		case "append":
			op.W = rapid.IntRange(0, 7).Draw(t, "w")
		case "write":
			op.A = rapid.IntRange(0, 3*maxK).Draw(t, "n")
		case "writeStriped":
			op.A = rapid.IntRange(0, maxK+1).Draw(t, "frames")
			op.B = rapid.IntRange(0, 2).Draw(t, "pattern")
		case "set":
			op.A = rapid.IntRange(0, 1000).Draw(t, "i")
		}
		c.Ops = append(c.Ops, op)
	}
	return c
}

var Oracle = kit.Oracle[Case]{Property: Property, Gen: Gen, Check: Check, FP: FP}
