package c10

import (
	"testing"

	"verif/harness/kit"
)

func TestRegress(t *testing.T) { Oracle.Regress(t) }
func TestRapid(t *testing.T)   { Oracle.Rapid(t) }
func TestReplay(t *testing.T)  { Oracle.Replay(t) }
func FuzzC10(f *testing.F)     { Oracle.Fuzz(f) }

// TestSweep: every history get, use, [reslice], put, get over a grid of shapes
// and single uses - the reuse path no repository test executes.
func TestSweep(t *testing.T) {
	env := kit.GetEnv(Property)
	rec := kit.NewRecorder(env, "sweep")
	defer func() { rec.Flush(!t.Failed()) }()
	uses := []string{"appendSamples", "appendSmall", "write", "writeStriped", "set"}
	maxK := env.Pick(3, 5)
	for _, tn := range Types {
		for C := 1; C <= 3; C++ {
			for K := 0; K <= maxK; K++ {
				for L := 0; L <= K; L++ {
					for _, u := range uses {
						for n := 0; n <= C*K+1; n++ {
							for rs := -1; rs <= K; rs++ {
								ops := []Op{{Kind: "get", N: (n + rs + 1) % 2}, {Kind: u, N: n}}
								if rs >= 0 {
									ops = append(ops, Op{Kind: "reslice", N: rs})
								}
								ops = append(ops, Op{Kind: "put"}, Op{Kind: "get"}, Op{Kind: "get"})
								Oracle.One(t, env, rec, "sweep", &Case{T: tn, C: C, L: L, K: K, Ops: ops})
								if rs >= 0 && C <= 2 {
									// reslice first, use through the reslice, put the ORIGINAL header; and: use through the original, put the reslice
									o2 := []Op{{Kind: "get"}, {Kind: "reslice", N: rs}, {Kind: u, N: n}, {Kind: "put", V: 1}, {Kind: "get"}, {Kind: "get"}}
									Oracle.One(t, env, rec, "sweep", &Case{T: tn, C: C, L: L, K: K, Ops: o2})
									o3 := []Op{{Kind: "get"}, {Kind: "reslice", N: rs}, {Kind: u, N: n, V: 1}, {Kind: "put"}, {Kind: "get"}, {Kind: "get"}}
									Oracle.One(t, env, rec, "sweep", &Case{T: tn, C: C, L: L, K: K, Ops: o3})
									// the original header grows beyond the capacity after the reslice was taken; the reslice is put back
									o4 := []Op{{Kind: "get"}, {Kind: "reslice", N: rs}, {Kind: "appendBig", N: n, V: 1}, {Kind: u, N: n}, {Kind: "put"}, {Kind: "get"}, {Kind: "get"}}
									Oracle.One(t, env, rec, "sweep", &Case{T: tn, C: C, L: L, K: K, Ops: o4})
								}
							}
						}
					}
				}
			}
		}
	}
	// pooled buffers of more than 2^16 samples whose size is not a multiple of 4 or 8
	for _, tn := range []string{"int8", "float32", "uint64"} {
		for _, sh := range [][2]int{{1, 65537}, {3, 21847}, {2, 35001}, {7, 9363}} {
			for _, l := range []int{0, sh[1]} {
				ops := []Op{{Kind: "get"}, {Kind: "put"}, {Kind: "get"}, {Kind: "get"}, {Kind: "put", I: 1}, {Kind: "put"}, {Kind: "get", N: 1}}
				Oracle.One(t, env, rec, "sweep", &Case{T: tn, C: sh[0], L: l, K: sh[1], Ops: ops})
			}
		}
	}
	// mid-sized buffers, a quiet checkout, a few single samples written far apart through a full window
	// (gaps of hundreds of untouched zeros in between), the length-L header put back
	for ti, tn := range []string{"int16", "float32", "uint8", "int64", "NInt16"} {
		for _, sh := range [][2]int{{1, 300}, {2, 450}, {1, 1000}, {3, 700}, {2, 2600}} {
			for _, l := range []int{0, 1, sh[1]} {
				for _, n := range []int{0, 137, 260, 600} {
					ops := []Op{{Kind: "get", N: 1}, {Kind: "sparse", N: n + ti}, {Kind: "put"}, {Kind: "get", N: 1}, {Kind: "get", N: 1}}
					Oracle.One(t, env, rec, "sweep", &Case{T: tn, C: sh[0], L: l, K: sh[1], Ops: ops})
				}
			}
		}
	}
	// bursts: g buffers outstanding at once, all put back (oldest first / newest first), then g+1 gets
	for _, tn := range []string{"int16", "float64", "uint8"} {
		for _, sh := range [][3]int{{1, 0, 2}, {2, 1, 3}, {3, 2, 2}} {
			for g := 1; g <= 40; g++ {
				for order := 0; order < 2; order++ {
					var ops []Op
					for i := 0; i < g; i++ {
						ops = append(ops, Op{Kind: "get", N: i % 2})
					}
					for i := 0; i < g; i++ {
						ops = append(ops, Op{Kind: "put", I: order * (g - 1 - i)})
					}
					for i := 0; i <= g; i++ {
						ops = append(ops, Op{Kind: "get", N: (i + 1) % 2})
					}
					Oracle.One(t, env, rec, "sweep", &Case{T: tn, C: sh[0], L: sh[1], K: sh[2], Ops: ops, MaxOut: 41})
				}
			}
		}
	}
	rec.Exhaustive("13 types x C<=3 x all L<=K<=3(5) x {appendSamples, appendSmall, write, writeStriped, set} x every argument 0..C*K+1 x {no reslice, reslice to 0..K} in the history get,use,[reslice],put,get,get", true)
}
