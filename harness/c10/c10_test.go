package c10

import (
	"testing"

	"verif/harness/kit"
)

func TestRegress(t *testing.T) { Oracle.Regress(t) }
func TestRapid(t *testing.T)   { Oracle.Rapid(t) }
func TestReplay(t *testing.T)  { Oracle.Replay(t) }
func FuzzC10(f *testing.F)     { Oracle.Fuzz(f) }

// TestSweep: every history get, use, [reslice], put, get over a grid of shapes
// and single uses - the reuse path no repository test executes.
func TestSweep(t *testing.T) {
	env := kit.GetEnv(Property)
	rec := kit.NewRecorder(env, "sweep")
	defer func() { rec.Flush(!t.Failed()) }()
	uses := []string{"appendSamples", "appendSmall", "write", "writeStriped", "set"}
	maxK := env.Pick(3, 5)
	for _, tn := range Types {
		for C := 1; C <= 3; C++ {
			for K := 0; K <= maxK; K++ {
				for L := 0; L <= K; L++ {
					for _, u := range uses {
						for n := 0; n <= C*K+1; n++ {
							for rs := -1; rs <= K; rs++ {
								ops := []Op{{Kind: "get", N: (n + rs + 1) % 2}, {Kind: u, N: n}}
								if rs >= 0 {
									ops = append(ops, Op{Kind: "reslice", N: rs})
								}
								ops = append(ops, Op{Kind: "put"}, Op{Kind: "get"}, Op{Kind: "get"})
								Oracle.One(t, env, rec, "sweep", &Case{T: tn, C: C, L: L, K: K, Ops: ops})
								if rs >= 0 && C <= 2 {
									// reslice first, use through the reslice, put the ORIGINAL header; and: use through the original, put the reslice
									o2 := []Op{{Kind: "get"}, {Kind: "reslice", N: rs}, {Kind: u, N: n}, {Kind: "put", V: 1}, {Kind: "get"}, {Kind: "get"}}
									Oracle.One(t, env, rec, "sweep", &Case{T: tn, C: C, L: L, K: K, Ops: o2})
									o3 := []Op{{Kind: "get"}, {Kind: "reslice", N: rs}, {Kind: u, N: n, V: 1}, {Kind: "put"}, {Kind: "get"}, {Kind: "get"}}
									Oracle.One(t, env, rec, "sweep", &Case{T: tn, C: C, L: L, K: K, Ops: o3})
									// the original header grows beyond the capacity after the reslice was taken; the reslice is put back
									o4 := []Op{{Kind: "get"}, {Kind: "reslice", N: rs}, {Kind: "appendBig", N: n, V: 1}, {Kind: u, N: n}, {Kind: "put"}, {Kind: "get"}, {Kind: "get"}}
									Oracle.One(t, env, rec, "sweep", &Case{T: tn, C: C, L: L, K: K, Ops: o4})
								}
							}
						}
					}
				}
			}
		}
	}
	rec.Exhaustive("13 types x C<=3 x all L<=K<=3(5) x {appendSamples, appendSmall, write, writeStriped, set} x every argument 0..C*K+1 x {no reslice, reslice to 0..K} in the history get,use,[reslice],put,get,get", true)
}
