// Package c10 decides property C10: a buffer obtained from a pool is
// indistinguishable from a freshly allocated one, and outstanding buffers
// never share storage.
package c10

import (
	"fmt"
	"math"
	"reflect"
	"runtime"

	"pgregory.net/rapid"
	"pipelined.dev/signal"
	"verif/harness/kit"
)

const Property = "C10"

// Op is one step of a pool history. I selects an outstanding buffer (modulo
// their number); N and V parameterise the use.
//
//	get | put | gc
//	appendSamples: N AppendSample calls
//	appendSmall:   Append of a buffer of min(N, remaining frames) frames (in place)
//	appendBig:     Append of a buffer larger than the remaining capacity (the buffer leaves the pool's capacity class and is dropped, never put)
//	write:         Write of N values
//	writeStriped:  WriteStriped of N-long channels
//	set:           SetSample at position N mod Len
//	sparse:        three single samples written through a full-capacity window from frame 0: position N mod Cap, the last position, and one up to 700 positions before it (everything in between stays as it is)
//	reslice:       b = b.Slice(0, N mod (K+1)) becomes the current header; the earlier headers stay usable
//
// V selects which header of the buffer (the one returned by Get, or one of its
// reslices from frame 0) the operation goes through, modulo their number; the
// default 0 is the most recent one. Put may return any of them.
type Op struct {
	Kind string `json:"kind"`
	I    int    `json:"i,omitempty"`
	N    int    `json:"n,omitempty"`
	V    int    `json:"v,omitempty"`
}

type Case struct {
	T   string `json:"t"`
	C   int    `json:"c"`
	L   int    `json:"l"`
	K   int    `json:"k"`
	Ops []Op   `json:"ops"`
	// MaxOut bounds the number of buffers checked out at the same time (0 = 6); further gets are skipped
	MaxOut int `json:"maxOut,omitempty"`
}

var Types = []string{"int8", "uint8", "int16", "uint16", "int32", "uint32", "int64", "uint64", "int", "uint", "uintptr", "float32", "float64", "NInt16", "NFloat32"}

type held struct {
	buf  kit.AnyBuf   // header the current operation goes through
	hdrs []kit.AnyBuf // all headers of this buffer: hdrs[0] from Get, then the reslices from frame 0; the last is the most recent

	alias kit.AnyBuf // full-capacity view of the same storage
	model []kit.Val
	id    int
	dirty bool
	short bool
}

const defaultMaxOut = 6

func Check(c *Case) (res kit.Result) {
	okT := false
	for _, t := range Types {
		okT = okT || t == c.T
	}
	if !okT || c.C < 1 || c.C > 8 || c.K < 0 || (c.K > 64 && (len(c.Ops) > 12 || c.C*c.K > 1<<18)) || c.L < 0 || c.L > c.K || len(c.Ops) > 400 || c.MaxOut < 0 || c.MaxOut > 64 {
		return
	}
	maxOut := c.MaxOut
	if maxOut == 0 {
		maxOut = defaultMaxOut
	}
	C, L, K := c.C, c.L, c.K
	al := signal.Allocator{Channels: C, Length: L, Capacity: K}
	pool := kit.NewAnyPool(c.T, al)
	want := kit.Hdr{Len: C * L, Cap: C * K, Length: L, Capacity: K, Channels: C, BitDepth: kit.Info(c.T).Bits}
	isFloat := kit.Info(c.T).Kind == kit.Float
	var out []*held
	// keyed by address only: the bookkeeping must not keep put-back buffers reachable (the
	// library may attach behaviour to their collection); an address reused after a collection
	// only blurs the statistics below
	addr := func(b kit.AnyBuf) uintptr { return reflect.ValueOf(b.Raw()).Pointer() }
	wasPut := map[uintptr]bool{}   // buffer objects handed to Put
	putDirty := map[uintptr]bool{} // ... that had been written to
	putShort := map[uintptr]bool{} // ... that were resliced shorter
	checkouts := 0
	zero := kit.AllocAny(c.T, signal.Allocator{Channels: 1, Length: 1, Capacity: 1}).Get(0)

	verifyAll := func(what string) bool {
		for _, h := range out {
			if d := kit.DiffVals(fmt.Sprintf("outstanding buffer #%d (whole capacity)", h.id), h.alias.Snap(), h.model); d != "" {
				res.Failf("%s: %s - another buffer's use leaked into it (shared storage?)", what, d)
				return false
			}
		}
		return true
	}

	for oi, op := range c.Ops {
		what := fmt.Sprintf("op %d %s", oi, op.Kind)
		var h *held
		if op.Kind != "get" && op.Kind != "gc" {
			if len(out) == 0 {
				continue
			}
			h = out[((op.I%len(out))+len(out))%len(out)]
			// header selection: 0 = most recent
			vi := ((op.V % len(h.hdrs)) + len(h.hdrs)) % len(h.hdrs)
			h.buf = h.hdrs[len(h.hdrs)-1-vi]
			if vi != 0 {
				res.Class("olderHeaderUsed")
			}
		}
		n := op.N
		if n < 0 {
			n = -n
		}
		switch op.Kind {
		case "get":
			if len(out) >= maxOut {
				continue
			}
			var b kit.AnyBuf
			if p, v := kit.Try(func() { b = pool.Get() }); p {
				res.Failf("%s: Get panicked: %v", what, v)
				return
			}
			checkouts++
			recycled := wasPut[addr(b)]
			if C*K > 0 {
				for _, o := range out {
					if o.hdrs[0].Raw() == b.Raw() {
						res.Failf("%s: Get returned the very buffer that checkout #%d still holds (%d outstanding)", what, o.id, len(out))
						return
					}
				}
			}
			if hd := b.Hdr(); hd != want {
				res.Failf("%s: Get returned %+v, a fresh Alloc(%+v) reports %+v (recycled buffer: %v)", what, hd, al, want, recycled)
				return
			}
			if m := kit.RawMismatch(b.Raw(), want); m != "" {
				res.Failf("%s: Get returned a buffer whose %s (recycled buffer: %v)", what, m, recycled)
				return
			}
			var alias kit.AnyBuf
			if p, v := kit.Try(func() { alias = b.Slice(0, K) }); p {
				res.Failf("%s: Slice(0,%d) of the obtained buffer panicked: %v", what, K, v)
				return
			}
			for i, v := range alias.Snap() {
				if !kit.SameVal(v, zero) {
					res.Failf("%s: Get returned a buffer whose sample %d (of capacity %d) reads %s, want 0 (recycled buffer: %v)", what, i, C*K, v, recycled)
					return
				}
			}
			if recycled {
				res.Class("recycled")
				if putDirty[addr(b)] {
					res.Class("recycledAfterDirtyUse")
				}
				if putShort[addr(b)] {
					res.Class("recycledAfterResliceShorter")
				}
				if L > 0 {
					res.Class("recycledWithLengthAboveZero")
				}
			}
			nh := &held{buf: b, hdrs: []kit.AnyBuf{b}, alias: alias, id: checkouts}
			// ownership stamp over the whole capacity - unless this is a "quiet" checkout (odd N),
			// which leaves the buffer as it came, so that what the history writes is all there is
			nh.model = make([]kit.Val, C*K)
			for i := range nh.model {
				if op.N%2 == 0 {
					alias.Set(i, kit.IV(int64(1+(checkouts*7+i)%100)))
				}
				nh.model[i] = alias.Get(i)
			}
			if op.N%2 == 1 {
				res.Class("quietCheckout")
			}
			delete(wasPut, addr(b))
			out = append(out, nh)
			if len(out) >= 2 {
				res.Class("severalOutstanding")
			}
			if len(out) >= 9 {
				res.Class("nineOrMoreOutstanding")
			}
		case "put":
			wasPut[addr(h.buf)] = true
			putDirty[addr(h.buf)] = true // stamped on checkout at least
			putShort[addr(h.buf)] = h.short
			if p, v := kit.Try(func() { pool.Put(h.buf) }); p {
				res.Failf("%s: Put of a buffer from this pool (Len %d, Cap %d) panicked: %v", what, h.buf.Hdr().Len, h.buf.Hdr().Cap, v)
				return
			}
			// forget the buffer and every header derived from it
			for i := range out {
				if out[i] == h {
					out = append(out[:i], out[i+1:]...)
					break
				}
			}
		case "gc":
			runtime.GC()
			runtime.GC()
		case "appendSamples":
			n = n % (C*K + 3)
			for k := 0; k < n; k++ {
				ln := h.buf.Hdr().Len
				v := sampleFor(isFloat, n, 101+k%20)
				h.buf.AppendSample(v)
				if ln < C*K {
					h.model[ln] = h.alias.Get(ln)
				}
			}
		case "appendSmall":
			hd := h.buf.Hdr()
			fr := kit.Min(n%(K+1), K-hd.Length)
			if hd.Len%C != 0 || fr <= 0 {
				continue
			}
			src := kit.AnyRoot(c.T, C, fr)
			h.buf.Append(src)
			for k := 0; k < C*fr; k++ {
				h.model[hd.Len+k] = src.Get(k)
			}
		case "appendBig":
			hd := h.buf.Hdr()
			// a source that does not fit (by at least one sample); it may end in a partial frame, so
			// that the grown header's capacity need not be a whole number of frames
			extra := C*K - hd.Len + 1 + n%(2*C+1)
			src := kit.AllocAny(c.T, signal.Allocator{Channels: C, Length: 0, Capacity: extra/C + 1})
			for k := 0; k < extra; k++ {
				src.AppendSample(kit.IV(int64(1 + k%70)))
			}
			h.buf.Append(src) // this header moves to new storage; the pooled storage is untouched
			if extra%C != 0 || hd.Len%C != 0 {
				res.Class("grewByPartialFrames")
			}
			if n%2 == 1 {
				// the grown header is offered to the pool: its capacity differs, so it must be refused
				// (C15); whether or not it is, the pool must keep handing out buffers of its own shape
				kit.Try(func() { pool.Put(h.buf) })
				res.Class("grownHeaderOfferedToThePool")
			}
			// only the header that grew leaves the pool's capacity class; the other headers of
			// the buffer (reslices from frame 0 taken earlier, or the original) still are what
			// the pool handed out and may be used and put back
			for i := range h.hdrs {
				if h.hdrs[i] == h.buf {
					h.hdrs = append(h.hdrs[:i], h.hdrs[i+1:]...)
					break
				}
			}
			if len(h.hdrs) == 0 {
				for i := range out {
					if out[i] == h {
						out = append(out[:i], out[i+1:]...)
						break
					}
				}
				res.Class("grownBufferDropped")
			} else {
				res.Class("oneHeaderGrewOthersRemain")
			}
		case "write":
			hd := h.buf.Hdr()
			m := kit.Min(n%(C*K+2), hd.Len)
			for k := 0; k < m; k++ {
				h.buf.Set(k, sampleFor(isFloat, n+k, 30+k%50))
				h.model[k] = h.alias.Get(k)
			}
		case "writeStriped":
			hd := h.buf.Hdr()
			if hd.Len%C != 0 {
				continue
			}
			fr := kit.Min(n%(K+2), hd.Length)
			for ch := 0; ch < C; ch++ {
				for i := 0; i < fr; i++ {
					pos := h.buf.BufferIndex(ch, i)
					h.buf.Set(pos, kit.IV(int64(60+(ch+i)%40)))
					h.model[pos] = h.alias.Get(pos)
				}
			}
		case "set":
			hd := h.buf.Hdr()
			if hd.Len == 0 {
				continue
			}
			pos := n % hd.Len
			h.buf.Set(pos, sampleFor(isFloat, n, 111+n%10))
			h.model[pos] = h.alias.Get(pos)
		case "sparse":
			if C*K == 0 {
				continue
			}
			for _, pos := range []int{n % (C * K), C*K - 1, C*K - 1 - n%kit.Min(C*K, 700)} {
				h.alias.Set(pos, kit.IV(int64(1+pos%90)))
				h.model[pos] = h.alias.Get(pos)
			}
			res.Class("sparseWritesThroughAFullWindow")
		case "reslice":
			k := n % (K + 1)
			if k < h.buf.Hdr().Length {
				h.short = true
			}
			h.hdrs = append(h.hdrs, h.buf.Slice(0, k))
		default:
			continue
		}
		if !verifyAll(what) {
			return
		}
	}
	return
}

// sampleFor picks the value an operation writes: for floating element types a
// third of the parameters select the negative zero, which compares equal to 0
// but is not what a fresh buffer holds.
func sampleFor(isFloat bool, sel, v int) kit.Val {
	if isFloat && sel%3 == 1 {
		return kit.FV(math.Copysign(0, -1))
	}
	return kit.IV(int64(v))
}

func FP(c *Case) uint64 {
	h := kit.NewHasher()
	h.Str(c.T)
	h.Ints([]int{c.C, c.L, c.K, len(c.Ops), c.MaxOut})
	for _, op := range c.Ops {
		h.Str(op.Kind)
		h.Int(op.I)
		h.Int(op.N)
		h.Int(op.V)
	}
	return h.Sum()
}

var kinds = []string{"get", "get", "put", "put", "gc", "appendSamples", "appendSmall", "appendBig", "write", "writeStriped", "set", "sparse", "reslice", "reslice"}

func Gen(t *rapid.T) *Case {
	c := &Case{T: rapid.SampledFrom(Types).Draw(t, "type"), C: rapid.IntRange(1, 4).Draw(t, "c")}
	c.K = rapid.IntRange(0, 8).Draw(t, "k")
	switch rapid.IntRange(0, 2).Draw(t, "lSel") {
	case 0:
		c.L = 0
	case 1:
		c.L = c.K
	default:
		c.L = rapid.IntRange(0, c.K).Draw(t, "l")
	}
	if kit.Chance(t, "huge", 1, 150) {
		// pooled buffers of more than 2^16 samples (sizes that are not multiples of 4 or 8), short histories
		c.K = rapid.SampledFrom([]int{65537, 65541, 70001, 66666}).Draw(t, "hugeSamples")/c.C + 1
		c.L = rapid.SampledFrom([]int{0, c.K, 3}).Draw(t, "hugeL")
		for _, k := range rapid.SliceOfN(rapid.SampledFrom([]string{"get", "put", "put", "write", "appendSamples", "set", "reslice", "get"}), 2, 9).Draw(t, "hugeOps") {
			c.Ops = append(c.Ops, Op{Kind: k, I: rapid.IntRange(0, 3).Draw(t, "hi"), N: rapid.IntRange(0, 40).Draw(t, "hn")})
		}
		c.Ops = append([]Op{{Kind: "get"}}, c.Ops...)
		c.Ops = append(c.Ops, Op{Kind: "put"}, Op{Kind: "get"})
		return c
	}
	if kit.Chance(t, "mid", 1, 10) {
		// pooled buffers of hundreds to thousands of samples, short histories of quiet checkouts and sparse writes
		c.K = rapid.IntRange(258, 6000).Draw(t, "midSamples")/c.C + 1
		c.L = rapid.SampledFrom([]int{0, 0, c.K, 1, c.K / 2}).Draw(t, "midL")
		c.Ops = []Op{{Kind: "get", N: 1}}
		for _, k := range rapid.SliceOfN(rapid.SampledFrom([]string{"sparse", "sparse", "set", "appendSamples", "reslice", "get", "put"}), 1, 7).Draw(t, "midOps") {
			c.Ops = append(c.Ops, Op{Kind: k, I: rapid.IntRange(0, 2).Draw(t, "mi"), N: rapid.IntRange(0, 7000).Draw(t, "mn"), V: rapid.IntRange(0, 2).Draw(t, "mv")})
		}
		c.Ops = append(c.Ops, Op{Kind: "put", V: rapid.IntRange(0, 2).Draw(t, "mpv")}, Op{Kind: "get", N: 1}, Op{Kind: "get", N: 1})
		return c
	}
	if rapid.IntRange(0, 4).Draw(t, "burstSel") == 0 {
		// many buffers outstanding at once: g gets, the same number of puts in a drawn order,
		// g2 gets, then the random tail below
		c.MaxOut = rapid.SampledFrom([]int{7, 8, 9, 10, 12, 16, 17, 24, 33, 40}).Draw(t, "maxOut")
		g := rapid.IntRange(2, c.MaxOut).Draw(t, "burstGets")
		for i := 0; i < g; i++ {
			c.Ops = append(c.Ops, Op{Kind: "get", N: rapid.IntRange(0, 1).Draw(t, "quietB")})
		}
		for i := rapid.IntRange(0, g).Draw(t, "burstKeep"); i < g; i++ {
			c.Ops = append(c.Ops, Op{Kind: "put", I: rapid.IntRange(0, c.MaxOut-1).Draw(t, "putI")})
		}
		for i, g2 := 0, rapid.IntRange(1, c.MaxOut).Draw(t, "burstGets2"); i < g2; i++ {
			c.Ops = append(c.Ops, Op{Kind: "get", N: rapid.IntRange(0, 1).Draw(t, "quietB2")})
		}
	}
	n := rapid.IntRange(1, 40).Draw(t, "nops")
	c.Ops = append(c.Ops, Op{Kind: "get", N: rapid.IntRange(0, 1).Draw(t, "quiet0")})
	for i := 0; i < n; i++ {
		op := Op{Kind: rapid.SampledFrom(kinds).Draw(t, "kind")}
		if op.Kind == "get" {
			op.N = rapid.IntRange(0, 1).Draw(t, "quiet")
		}
		if op.Kind == "gc" && rapid.IntRange(0, 9).Draw(t, "gcRare") != 0 {
			op.Kind = "get"
		}
		if op.Kind != "get" && op.Kind != "gc" {
			op.I = rapid.IntRange(0, kit.Max(c.MaxOut, defaultMaxOut)-1).Draw(t, "i")
			op.N = rapid.IntRange(0, 40).Draw(t, "n")
			if rapid.IntRange(0, 2).Draw(t, "olderHeader") == 0 {
				op.V = rapid.IntRange(1, 3).Draw(t, "v")
			}
		}
		c.Ops = append(c.Ops, op)
	}
	return c
}

var Oracle = kit.Oracle[Case]{Property: Property, Gen: Gen, Check: Check, FP: FP}
