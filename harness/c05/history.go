package c05

import (
	"bufio"
	"bytes"
	"encoding/json"
	"fmt"
	"math"
	"os"
	"os/exec"
	"strings"
	"sync"

	"pipelined.dev/signal"
	"verif/harness/convtab"
	"verif/harness/kit"
)

// History mode ("result k depends only on source sample k and the two formats"):
// what a conversion returns must not depend on which conversions the process
// ran before it. State that lives for the whole process (tables filled on first
// use, memoised scales) cannot be reset from inside, so the history is replayed
// in child processes: the test binary re-executes itself, runs the
// instantiations of Case.Hist in that order over a fixed probe set, and reports
// one digest per step. Every digest must equal the one the same instantiation
// gives when it is the first library call of a process, and the one computed in
// this process (whose history is whatever ran before).

const (
	childEnv     = "VERIF_C05_CHILD"      // JSON list of instantiation keys: run as a history child
	childDumpEnv = "VERIF_C05_CHILD_DUMP" // position in that list whose results are printed in full
	childMark    = "CHILD-RESULT "
)

// probeVals is the fixed probe set of an instantiation: every code of an 8-bit
// source, the boundary-dense codes of wider ones, the boundary floats (NaN only
// for floating-to-floating).
func probeVals(e *convtab.Entry) []kit.Val {
	var out []kit.Val
	if e.S.Kind == kit.Float {
		b := bFloat64
		if e.S.Bits == 32 {
			b = bFloat32
		}
		for _, f := range b {
			out = append(out, kit.FV(f))
		}
		if e.D.Kind == kit.Float {
			out = append(out, kit.FV(math.NaN()))
		}
		return out
	}
	if e.S.Bits == 8 {
		for a := int64(-128); a <= 127; a++ {
			out = append(out, convtab.AmpToCode(e.S, a))
		}
		return out
	}
	for _, a := range bAmps[e.S.Bits] {
		out = append(out, convtab.AmpToCode(e.S, a))
	}
	return out
}

// probe converts the probe set of e (one channel, equal lengths) and returns the results.
func probe(e *convtab.Entry) (out []kit.Val, panicked string) {
	vals := probeVals(e)
	a := signal.Allocator{Channels: 1, Length: len(vals), Capacity: len(vals)}
	src, dst := kit.AllocAny(e.S.Name, a), kit.AllocAny(e.D.Name, a)
	for i, v := range vals {
		src.Set(i, v)
	}
	if p, v := kit.Try(func() { e.Convert(src, dst) }); p {
		return nil, fmt.Sprint("panic: ", v)
	}
	return dst.Snap(), ""
}

func digest(vals []kit.Val, panicked string) string {
	if panicked != "" {
		return panicked
	}
	h := kit.NewHasher()
	for _, v := range vals {
		if v.K == 'f' {
			h.U64(math.Float64bits(v.F))
		} else {
			h.U64(v.Hash64())
		}
	}
	return fmt.Sprintf("%016x", h.Sum())
}

// ChildMain is the body of the history child: it must be the first thing in the
// process that calls the library.
func ChildMain() bool {
	spec := os.Getenv(childEnv)
	if spec == "" {
		return false
	}
	var order []string
	if err := json.Unmarshal([]byte(spec), &order); err != nil {
		fmt.Println("HARNESS-ERROR bad child spec:", err)
		os.Exit(3)
	}
	dump := -1
	fmt.Sscan(os.Getenv(childDumpEnv), &dump)
	digests := make([]string, len(order))
	var dumped []kit.Val
	for i, key := range order {
		sd := strings.SplitN(key, "/", 2)
		var e *convtab.Entry
		if len(sd) == 2 {
			e = convtab.Lookup(sd[0], sd[1])
		}
		if e == nil {
			fmt.Println("HARNESS-ERROR unknown instantiation", key)
			os.Exit(3)
		}
		vals, p := probe(e)
		digests[i] = digest(vals, p)
		if i == dump {
			dumped = vals
		}
	}
	b, _ := json.Marshal(struct {
		Digests []string  `json:"digests"`
		Dump    []kit.Val `json:"dump,omitempty"`
	}{digests, dumped})
	fmt.Println(childMark + string(b))
	return true
}

func harnessDie(format string, a ...any) {
	fmt.Fprintf(os.Stderr, "HARNESS-ERROR "+format+"\n", a...)
	os.Exit(3)
}

// runChild replays a history in a fresh process.
func runChild(order []string, dump int) (digests []string, dumped []kit.Val) {
	exe, err := os.Executable()
	if err != nil {
		harnessDie("history child: %v", err)
	}
	spec, _ := json.Marshal(order)
	cmd := exec.Command(exe, "-test.run=^TestHistoryChild$", "-test.count=1", "-test.timeout=120s")
	cmd.Env = append(os.Environ(), childEnv+"="+string(spec), fmt.Sprintf("%s=%d", childDumpEnv, dump), "VERIF_OUT=")
	out, err := cmd.CombinedOutput()
	sc := bufio.NewScanner(bytes.NewReader(out))
	sc.Buffer(make([]byte, 1<<20), 1<<28)
	for sc.Scan() {
		if l := sc.Text(); strings.HasPrefix(l, childMark) {
			var r struct {
				Digests []string  `json:"digests"`
				Dump    []kit.Val `json:"dump"`
			}
			if json.Unmarshal([]byte(l[len(childMark):]), &r) == nil && len(r.Digests) == len(order) {
				return r.Digests, r.Dump
			}
		}
	}
	tail := string(out)
	if len(tail) > 600 {
		tail = tail[len(tail)-600:]
	}
	harnessDie("history child gave no result (%v): %s", err, tail)
	return nil, nil
}

var (
	aloneMu    sync.Mutex
	aloneCache = map[string]string{} // instantiation key -> digest when it is the first call of a process
)

func alone(key string) string {
	aloneMu.Lock()
	defer aloneMu.Unlock()
	if d, ok := aloneCache[key]; ok {
		return d
	}
	ds, _ := runChild([]string{key}, -1)
	aloneCache[key] = ds[0]
	return ds[0]
}

func firstDiff(a, b []kit.Val, in []kit.Val) string {
	for i := range a {
		if i < len(b) && !kit.SameVal(a[i], b[i]) {
			return fmt.Sprintf("source %s gives %s after the history, %s as the first call of a process", in[i], a[i], b[i])
		}
	}
	return fmt.Sprintf("%d results against %d", len(a), len(b))
}

func checkHistory(c *Case) (res kit.Result) {
	if len(c.Hist) > 256 {
		return
	}
	var es []*convtab.Entry
	for _, key := range c.Hist {
		sd := strings.SplitN(key, "/", 2)
		if len(sd) != 2 || convtab.Lookup(sd[0], sd[1]) == nil {
			return
		}
		es = append(es, convtab.Lookup(sd[0], sd[1]))
	}
	digests, _ := runChild(c.Hist, -1)
	for i, key := range c.Hist {
		e := es[i]
		if strings.HasPrefix(digests[i], "panic") {
			res.Failf("%s: %s (step %d of the history %v, equal lengths, one channel)", e, digests[i], i, c.Hist)
			return
		}
		ref := alone(key)
		if digests[i] != ref {
			_, after := runChild(c.Hist, i)
			_, first := runChild([]string{key}, 0)
			res.Failf("%s: result depends on what the process converted before: %s (step %d of the history %v)", e, firstDiff(after, first, probeVals(e)), i, c.Hist)
			return
		}
		here, p := probe(e)
		if d := digest(here, p); d != ref {
			_, first := runChild([]string{key}, 0)
			res.Failf("%s: result depends on what the process converted before: %s (in the checking process itself, whose history is not recorded; reference: first call of a fresh process)", e, firstDiff(here, first, probeVals(e)))
			return
		}
		if i > 0 {
			res.Class("convertedAfterOtherInstantiations")
			if es[i-1].Fn == e.Fn && es[i-1] != e {
				res.Class("afterSiblingOfTheSameFunction")
			}
		}
	}
	return
}
