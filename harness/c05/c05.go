// Package c05 decides property C05: conversions act position-wise on the
// common prefix and touch nothing else.
package c05

import (
	"fmt"
	"math"

	"pgregory.net/rapid"
	"pipelined.dev/signal"
	"verif/harness/convtab"
	"verif/harness/kit"
)

const Property = "C05"

// Win is a window [A,B) (+Partial samples) of a root with Kr frames.
type Win struct {
	Kr      int `json:"kr"`
	A       int `json:"a"`
	B       int `json:"b"`
	Partial int `json:"partial,omitempty"`
	Fix     int `json:"fix,omitempty"` // fixture construction order, see kit.AnyRootWindow
}

func (w Win) valid(C int) bool {
	if w.Kr < 0 || w.A < 0 || w.A > w.B || w.B > w.Kr || w.Partial < 0 || C*w.Kr > 1<<20 || w.Fix < 0 || w.Fix > 1<<12 {
		return false
	}
	return w.Partial == 0 || (w.Partial < C && w.B < w.Kr)
}

type Case struct {
	S    string    `json:"s"`
	D    string    `json:"d"`
	C    int       `json:"c"`
	Src  Win       `json:"src"`
	Dst  Win       `json:"dst"`
	Vals []kit.Val `json:"vals"` // source sample k is Vals[k % len]
	// DstFill: 0 = destination holds sentinels; 1 = every destination sample is 0 (+0 for floats);
	// 2 = -0 for floating destinations (0 for integer ones). A result that merely compares equal
	// to what the destination already holds must still be stored.
	DstFill int `json:"dstFill,omitempty"`
	// SameRoot (same source and destination element type only): both windows are cut from
	// one parent buffer, the destination window Src.Kr frames behind the source's root part.
	SameRoot bool `json:"sameRoot,omitempty"`
	// Nest (SameRoot only): how the two windows are reached. 0 = one Slice each; 1 = two Slice
	// calls each (own intermediate windows); 2 = three Slice calls each; 3 = two Slice calls each,
	// both chains starting with an outer window that begins at the same frame (separate headers);
	// 4 = as 3 through one shared outer header.
	Nest int `json:"nest,omitempty"`
	// Hist (history mode, see history.go): instantiation keys "S/D" run in this order over
	// their fixed probe sets in a fresh process; every other field is ignored.
	Hist []string `json:"hist,omitempty"`
}

func build(name string, C int, w Win) (root, win kit.AnyBuf, model []kit.Val, off, n int) {
	root, win = kit.AnyRootWindow(name, C, w.Kr, w.A, w.B, w.Partial, w.Fix)
	return root, win, root.Snap(), C * w.A, C*(w.B-w.A) + w.Partial
}

func Check(c *Case) (res kit.Result) {
	if len(c.Hist) > 0 {
		return checkHistory(c)
	}
	e := convtab.Lookup(c.S, c.D)
	if e == nil || c.C < 1 || !c.Src.valid(c.C) || !c.Dst.valid(c.C) || len(c.Vals) == 0 {
		return
	}
	for _, v := range c.Vals {
		switch e.S.Kind {
		case kit.Float:
			if v.K != 'f' || (v.F != v.F && e.D.Kind != kit.Float) {
				return // NaN is only in the domain of floating-to-floating
			}
			if e.S.Bits == 32 && v.F == v.F && float64(float32(v.F)) != v.F {
				return
			}
		case kit.Signed:
			lo, hi := kit.IntRange(e.S)
			if v.K != 'i' || v.I < lo || uint64(v.I) > hi && v.I > 0 {
				return
			}
		default:
			_, hi := kit.IntRange(e.S)
			if v.K != 'u' || v.U > hi {
				return
			}
		}
	}
	C := c.C
	if c.SameRoot {
		if c.S != c.D || c.Src.Partial > 0 || c.Dst.Partial > 0 || c.DstFill != 0 {
			return kit.Result{}
		}
		return checkSameRoot(c, e)
	}
	sroot, src, _, soff, sn := build(c.S, C, c.Src)
	droot, dst, dmodel, doff, dn := build(c.D, C, c.Dst)
	// source samples are written through the root (not through the window header)
	swrite := sroot
	if c.Src.Fix == 3 {
		swrite = sroot.Slice(0, c.Src.Kr) // the source header itself is never written through
		res.Class("sourceHeaderFilledOnlyThroughAnAlias")
	}
	for k := 0; k < sn; k++ {
		swrite.Set(soff+k, c.Vals[k%len(c.Vals)])
	}
	if f := c.Src.Fix; f == 1 || f == 2 {
		res.Class("headerNeverWrittenThrough")
	} else if f := c.Dst.Fix; f == 1 || f == 2 {
		res.Class("headerNeverWrittenThrough")
	}
	if c.Src.Fix >= 4 || c.Dst.Fix >= 4 {
		res.Class("contentAppendedInTwoPieces")
	}
	if c.DstFill < 0 || c.DstFill > 2 {
		return kit.Result{}
	}
	if c.DstFill > 0 {
		z := kit.IV(0)
		if c.DstFill == 2 && e.D.Kind == kit.Float {
			z = kit.FV(math.Copysign(0, -1))
		}
		for k := 0; k < droot.Len(); k++ {
			droot.Set(k, z)
		}
		dmodel = droot.Snap()
		res.Class("destinationPrefilledWithZeros")
	}
	smodel := sroot.Snap()
	sh, dh, srh, drh := src.Hdr(), dst.Hdr(), sroot.Hdr(), droot.Hdr()

	var ret int
	if p, v := kit.Try(func() { ret = e.Convert(src, dst) }); p {
		res.Failf("%s: panic: %v (src len %d, dst len %d, %d channels)", e, v, sn, dn, C)
		return
	}
	n := kit.Min(sn, dn)
	wantRet := kit.Min(kit.CeilDiv(sn, C), kit.CeilDiv(dn, C))
	if ret != wantRet {
		res.Failf("%s: returned %d, want %d = min(per-channel lengths %d, %d)", e, ret, wantRet, kit.CeilDiv(sn, C), kit.CeilDiv(dn, C))
		return
	}
	// frame conditions
	if d := kit.DiffVals("source storage", sroot.Snap(), smodel); d != "" {
		res.Failf("%s: %s", e, d)
		return
	}
	if src.Hdr() != sh || dst.Hdr() != dh || sroot.Hdr() != srh || droot.Hdr() != drh {
		res.Failf("%s: a header changed: src %+v (was %+v), dst %+v (was %+v)", e, src.Hdr(), sh, dst.Hdr(), dh)
		return
	}
	got := droot.Snap()
	// position-wise law: result k equals the conversion of sample k alone
	cache := map[kit.Val]kit.Val{}
	one := signal.Allocator{Channels: 1, Length: 1, Capacity: 1}
	for k := 0; k < n; k++ {
		in := smodel[soff+k]
		key := in
		if in.K == 'f' {
			key = kit.Val{K: 'f', U: math.Float64bits(in.F)} // NaN-safe map key
		}
		want, ok := cache[key]
		if !ok {
			ps, pd := kit.AllocAny(c.S, one), kit.AllocAny(c.D, one)
			ps.Set(0, in)
			e.Convert(ps, pd)
			want = pd.Get(0)
			cache[key] = want
		}
		if e.S.Kind == kit.Float && e.D.Kind == kit.Float {
			// direct oracle: Go's conversion, never clipped
			exact := in.F
			if e.D.Bits == 32 {
				exact = float64(float32(in.F))
			}
			if !kit.SameVal(got[doff+k], kit.FV(exact)) {
				res.Failf("%s: position %d: %s converted to %s, want %s (value-preserving)", e, k, in, got[doff+k], kit.FV(exact))
				return
			}
			if in.F != in.F || math.Abs(in.F) > 1 {
				res.Class("floatBeyondUnitRange")
			}
		}
		if !kit.SameVal(got[doff+k], want) {
			res.Failf("%s: position %d of %d: source %s gave %s, but the same sample converted alone gives %s (result depends on context)", e, k, n, in, got[doff+k], want)
			return
		}
		dmodel[doff+k] = want
	}
	if d := kit.DiffVals("destination storage", got, dmodel); d != "" {
		res.Failf("%s: %s (destination window at %d, common prefix %d)", e, d, doff, n)
		return
	}
	if sn != dn {
		res.Class("lenMismatch")
	}
	if c.Src.A > 0 || c.Src.B < c.Src.Kr {
		res.Class("sourceWindow")
	}
	if c.Dst.A > 0 || c.Dst.B < c.Dst.Kr {
		res.Class("destinationWindow")
	}
	if C >= 2 && n > 0 {
		res.Class("multiChannel")
	}
	if c.Src.Partial > 0 || c.Dst.Partial > 0 {
		res.Class("partialFrame")
	}
	return
}

// nested cuts frames [a,b) of root (total frames) with depth Slice calls whose starts add up to a.
func nested(root kit.AnyBuf, total, a, b, depth int) kit.AnyBuf {
	w, off := root, 0
	for d := depth; d > 1; d-- {
		p := (a - off) / d
		if (a-off)%d != 0 {
			p++
		}
		w = w.Slice(p, total-off)
		off += p
	}
	return w.Slice(a-off, b-off)
}

// nestedPair cuts the frames [sa,sb) and [da,db) of root in the way Case.Nest says.
func nestedPair(root kit.AnyBuf, total, sa, sb, da, db, nest int) (src, dst kit.AnyBuf) {
	switch nest {
	case 1:
		return nested(root, total, sa, sb, 2), nested(root, total, da, db, 2)
	case 2:
		return nested(root, total, sa, sb, 3), nested(root, total, da, db, 3)
	case 3, 4:
		m := kit.Min(sa, da)
		if m > 0 {
			m -= m / 3
		}
		o1 := root.Slice(m, total)
		o2 := o1
		if nest == 3 {
			o2 = root.Slice(m, total)
		}
		// a further level for the later window, so that the starts inside the outer window differ in depth too
		if sa >= da {
			return o1.Slice((sa-m)/2, total-m).Slice(sa-m-(sa-m)/2, sb-m-(sa-m)/2), o2.Slice(da-m, db-m)
		}
		return o1.Slice(sa-m, sb-m), o2.Slice((da-m)/2, total-m).Slice(da-m-(da-m)/2, db-m-(da-m)/2)
	}
	return root.Slice(sa, sb), root.Slice(da, db)
}

// checkSameRoot: source and destination are disjoint windows of one parent.
func checkSameRoot(c *Case, e *convtab.Entry) (res kit.Result) {
	C := c.C
	total := c.Src.Kr + c.Dst.Kr
	root := kit.AnyRoot(c.S, C, total)
	src, dst := nestedPair(root, total, c.Src.A, c.Src.B, c.Src.Kr+c.Dst.A, c.Src.Kr+c.Dst.B, c.Nest)
	soff, sn := C*c.Src.A, C*(c.Src.B-c.Src.A)
	doff, dn := C*(c.Src.Kr+c.Dst.A), C*(c.Dst.B-c.Dst.A)
	for k := 0; k < sn; k++ {
		root.Set(soff+k, c.Vals[k%len(c.Vals)])
	}
	model := root.Snap()
	sh, dh := src.Hdr(), dst.Hdr()
	var ret int
	if p, v := kit.Try(func() { ret = e.Convert(src, dst) }); p {
		res.Failf("%s between two windows of one parent: panic: %v", e, v)
		return
	}
	n := kit.Min(sn, dn)
	if want := kit.Min(kit.CeilDiv(sn, C), kit.CeilDiv(dn, C)); ret != want {
		res.Failf("%s between two windows of one parent returned %d, want %d", e, ret, want)
		return
	}
	one := signal.Allocator{Channels: 1, Length: 1, Capacity: 1}
	for k := 0; k < n; k++ {
		ps, pd := kit.AllocAny(c.S, one), kit.AllocAny(c.D, one)
		ps.Set(0, model[soff+k])
		e.Convert(ps, pd)
		model[doff+k] = pd.Get(0)
	}
	if d := kit.DiffVals("parent storage", root.Snap(), model); d != "" {
		res.Failf("%s from frames [%d,%d) into frames [%d,%d) of the same parent: %s", e, c.Src.A, c.Src.B, c.Src.Kr+c.Dst.A, c.Src.Kr+c.Dst.B, d)
		return
	}
	if src.Hdr() != sh || dst.Hdr() != dh {
		res.Failf("%s between two windows of one parent changed a header", e)
		return
	}
	if n > 0 {
		res.Class("windowsOfOneParent")
		if c.Nest > 0 {
			res.Class("windowsOfWindowsOfOneParent")
		}
	}
	// in place: the very same window as source and destination (through one header, then through a
	// second header over the same frames). A same-type conversion is the identity on every sample
	// (C07 for the fixed-point ones, value preservation for floating point), so "source unchanged"
	// and "result k is the conversion of sample k" hold together: nothing at all may change.
	// (Windows that overlap with a shift are outside the property: the source cannot stay unchanged.)
	model = root.Snap()
	for i, d2 := range []kit.AnyBuf{src, root.Slice(c.Src.A, c.Src.B)} {
		if p, v := kit.Try(func() { ret = e.Convert(src, d2) }); p {
			res.Failf("%s of a window onto itself: panic: %v", e, v)
			return
		}
		if want := kit.CeilDiv(sn, C); ret != want {
			res.Failf("%s of a window onto itself returned %d, want %d", e, ret, want)
			return
		}
		if d := kit.DiffVals("parent storage", root.Snap(), model); d != "" {
			res.Failf("%s of frames [%d,%d) onto themselves (%s): %s", e, c.Src.A, c.Src.B, []string{"one header", "two headers over the same frames"}[i], d)
			return
		}
	}
	if sn > 0 {
		res.Class("convertedInPlace")
	}
	return
}

func FP(c *Case) uint64 {
	h := kit.NewHasher()
	h.Str(c.S)
	h.Str(c.D)
	h.Int(c.DstFill)
	for _, k := range c.Hist {
		h.Str(k)
	}
	if c.SameRoot {
		h.Int(1 + c.Nest)
	}
	h.Ints([]int{c.C, c.Src.Kr, c.Src.A, c.Src.B, c.Src.Partial, c.Src.Fix, c.Dst.Kr, c.Dst.A, c.Dst.B, c.Dst.Partial, c.Dst.Fix})
	for _, v := range c.Vals {
		if v.K == 'f' {
			h.U64(math.Float64bits(v.F))
		} else {
			h.U64(v.Hash64())
		}
	}
	return h.Sum()
}

var (
	bAmps    = map[int][]int64{8: kit.BoundaryAmps(8), 16: kit.BoundaryAmps(16), 32: kit.BoundaryAmps(32), 64: kit.BoundaryAmps(64)}
	bFloat32 = kit.BoundaryFloats(true)
	bFloat64 = kit.BoundaryFloats(false)
)

func genWin(t *rapid.T, label string, C int) Win {
	var w Win
	w.Kr, w.A, w.B = kit.GenWindow(t, label, 300)
	if kit.Chance(t, label+"Huge", 1, 3000) { // rarely: tens of thousands of samples
		w.Kr = rapid.IntRange(66000, 140000).Draw(t, label+"HugeKr") / C
		w.A = rapid.IntRange(0, 3).Draw(t, label+"HugeA")
		w.B = w.Kr - rapid.IntRange(0, 3).Draw(t, label+"HugeSpare")
	}
	if w.B < w.Kr && C >= 2 && rapid.IntRange(0, 3).Draw(t, label+"PartialSel") == 0 {
		w.Partial = rapid.IntRange(1, C-1).Draw(t, label+"Partial")
	}
	w.Fix = kit.GenFix(t, label+"Fix", C)
	if w.A == 0 && w.B == w.Kr && w.Partial == 0 && rapid.IntRange(0, 2).Draw(t, label+"Self") == 0 {
		w.Fix = 3 // the whole root itself, filled only through an alias
	}
	return w
}

// GenVal draws one source sample of format ti (NaN only when allowNaN).
func GenVal(t *rapid.T, ti kit.TypeInfo, allowNaN bool) kit.Val {
	if ti.Kind == kit.Float {
		if allowNaN && rapid.IntRange(0, 15).Draw(t, "nanSel") == 0 {
			return kit.FV(rapid.SampledFrom(kit.NaNs).Draw(t, "nan")) // quiet and signalling, payload in high or low bits
		}
		b := bFloat64
		if ti.Bits == 32 {
			b = bFloat32
		}
		return kit.FV(kit.GenFloat(t, ti.Bits == 32, b, allowNaN))
	}
	return convtab.AmpToCode(ti, kit.GenAmp(t, ti.Bits, bAmps[ti.Bits]))
}

// genHistory draws a short history: instantiations related to a base one (same
// function and source type, same function and destination type, same source
// width) or unrelated, in drawn order; repeats are allowed.
func genHistory(t *rapid.T) *Case {
	base := convtab.Entries[rapid.IntRange(0, len(convtab.Entries)-1).Draw(t, "histBase")]
	c := &Case{S: base.S.Name, D: base.D.Name}
	n := rapid.IntRange(2, 5).Draw(t, "histLen")
	for i := 0; i < n; i++ {
		rel := rapid.IntRange(0, 4).Draw(t, "histRel")
		var pool []*convtab.Entry
		for _, e := range convtab.Entries {
			switch {
			case rel == 0 && e.Fn == base.Fn && e.S.Bits == base.S.Bits,
				rel == 1 && e.Fn == base.Fn && e.D.Bits == base.D.Bits,
				rel == 2 && e.S.Kind == base.S.Kind && e.S.Bits == base.S.Bits,
				rel == 3,
				rel == 4 && e == base:
				pool = append(pool, e)
			}
		}
		c.Hist = append(c.Hist, pool[rapid.IntRange(0, len(pool)-1).Draw(t, "histStep")].Key())
	}
	return c
}

func Gen(t *rapid.T) *Case {
	if kit.Chance(t, "history", 1, 1500) {
		return genHistory(t)
	}
	e := convtab.Entries[rapid.IntRange(0, len(convtab.Entries)-1).Draw(t, "inst")]
	c := &Case{S: e.S.Name, D: e.D.Name, C: kit.GenChannels(t)}
	c.Src = genWin(t, "s", c.C)
	if rapid.IntRange(0, 3).Draw(t, "sameShape") == 0 {
		c.Dst = c.Src
	} else {
		c.Dst = genWin(t, "d", c.C)
	}
	nv := rapid.IntRange(1, 10).Draw(t, "nvals")
	for i := 0; i < nv; i++ {
		c.Vals = append(c.Vals, GenVal(t, e.S, e.D.Kind == kit.Float))
	}
	if e.S.Name == e.D.Name && rapid.Bool().Draw(t, "sameRoot") {
		c.SameRoot = true
		c.Src.Partial, c.Dst.Partial = 0, 0
		c.Nest = rapid.IntRange(0, 4).Draw(t, "nest")
		return c
	}
	if rapid.IntRange(0, 4).Draw(t, "dstFillSel") == 0 {
		c.DstFill = rapid.IntRange(1, 2).Draw(t, "dstFill")
		// make zeros (of both signs for floats) likely among the source values
		if e.S.Kind == kit.Float {
			c.Vals = append(c.Vals, kit.FV(0), kit.FV(math.Copysign(0, -1)), kit.FV(1e-300), kit.FV(-1e-300))
		} else {
			c.Vals = append(c.Vals, convtab.AmpToCode(e.S, 0))
		}
	}
	return c
}

var Oracle = kit.Oracle[Case]{Property: Property, Gen: Gen, Check: Check, FP: FP}

var _ = fmt.Sprint
