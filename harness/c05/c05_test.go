package c05

import (
	"math"
	"testing"

	"verif/harness/convtab"
	"verif/harness/kit"
)

func TestRegress(t *testing.T) { Oracle.Regress(t) }
func TestRapid(t *testing.T)   { Oracle.Rapid(t) }
func TestReplay(t *testing.T)  { Oracle.Replay(t) }
func FuzzC05(f *testing.F)     { Oracle.Fuzz(f) }

// TestHistoryChild is the re-executed half of the history mode (history.go); it does nothing unless asked to.
func TestHistoryChild(t *testing.T) {
	if !ChildMain() {
		t.Skip("not a history child")
	}
}

// TestHistory: process-level history independence. Every instantiation after every other of its
// function that shares its source type, and after every other that shares its destination type,
// in both orders; and the whole table forwards and backwards. Each step is compared with the same
// instantiation as the first library call of a process.
func TestHistory(t *testing.T) {
	env := kit.GetEnv(Property)
	rec := kit.NewRecorder(env, "history")
	defer func() { rec.Flush(!t.Failed()) }()
	groups := map[string][]string{}
	var names []string
	add := func(g, key string) {
		if _, ok := groups[g]; !ok {
			names = append(names, g)
		}
		groups[g] = append(groups[g], key)
	}
	var all []string
	for _, e := range convtab.Entries {
		add(e.Fn+" from "+e.S.Name, e.Key())
		add(e.Fn+" into "+e.D.Name, e.Key())
		all = append(all, e.Key())
	}
	groups["all"] = all
	names = append(names, "all")
	for _, g := range names {
		keys := groups[g]
		if len(keys) < 2 {
			continue
		}
		rev := make([]string, len(keys))
		for i, k := range keys {
			rev[len(keys)-1-i] = k
		}
		Oracle.One(t, env, rec, "history", &Case{Hist: keys})
		Oracle.One(t, env, rec, "history", &Case{Hist: rev})
	}
}

// TestSweep: every instantiation x a grid of shape pairs, with a fixed value pool.
func TestSweep(t *testing.T) {
	env := kit.GetEnv(Property)
	rec := kit.NewRecorder(env, "sweep")
	defer func() { rec.Flush(!t.Failed()) }()
	wins := func(C, maxK int) []Win {
		var out []Win
		for K := 0; K <= maxK; K++ {
			for a := 0; a <= K; a++ {
				for b := a; b <= K; b++ {
					out = append(out, Win{Kr: K, A: a, B: b, Fix: (a + b) % 3})
					if a == 0 && b == K {
						out = append(out, Win{Kr: K, A: a, B: b, Fix: 3}) // the root header itself, filled only through an alias
					}
					if b < K && C >= 2 {
						out = append(out, Win{Kr: K, A: a, B: b, Partial: 1})
					}
				}
			}
		}
		return out
	}
	maxK := env.Pick(2, 3)
	for _, e := range convtab.Entries {
		var vals []kit.Val
		if e.S.Kind == kit.Float {
			for _, f := range []float64{0.5, -0.25, 1.5, -2, 0, 1, -1, math.Inf(1), 3e9} {
				vals = append(vals, kit.FV(f))
			}
			if e.D.Kind == kit.Float {
				vals = append(vals, kit.FV(math.NaN()))
			}
		} else {
			lo, hi := int64(-1)<<(e.S.Bits-1), int64(1)<<(e.S.Bits-1)-1
			for _, a := range []int64{0, 1, -1, lo, hi, hi / 2, lo / 2, 5} {
				vals = append(vals, convtab.AmpToCode(e.S, a))
			}
		}
		for C := 1; C <= 3; C++ {
			ws := wins(C, maxK)
			for _, sw := range ws {
				for _, dw := range ws {
					Oracle.One(t, env, rec, "sweep", &Case{S: e.S.Name, D: e.D.Name, C: C, Src: sw, Dst: dw, Vals: vals})
				}
			}
		}
	}
	// channel counts around 65536 (the returned count is in frames of the real channel count)
	for i, e := range convtab.Entries {
		if i%13 != 0 {
			continue
		}
		var vals []kit.Val
		if e.S.Kind == kit.Float {
			vals = []kit.Val{kit.FV(0.5), kit.FV(-0.25)}
		} else {
			vals = []kit.Val{convtab.AmpToCode(e.S, 1), convtab.AmpToCode(e.S, -2)}
		}
		for _, C := range []int{256, 257, 65536, 65538} {
			Oracle.One(t, env, rec, "sweep", &Case{S: e.S.Name, D: e.D.Name, C: C, Src: Win{Kr: 3, A: 0, B: 3}, Dst: Win{Kr: 2, A: 0, B: 2}, Vals: vals})
		}
	}
	// same-type conversions between two windows of one parent
	for _, e := range convtab.Entries {
		if e.S.Name != e.D.Name {
			continue
		}
		var vals []kit.Val
		for i := 0; i < 7; i++ {
			if e.S.Kind == kit.Float {
				vals = append(vals, kit.FV(float64(i+1)/8))
			} else {
				vals = append(vals, convtab.AmpToCode(e.S, int64(i+1)))
			}
		}
		for C := 1; C <= 2; C++ {
			for _, w := range [][4]int{{0, 3, 0, 3}, {1, 3, 0, 2}, {0, 2, 1, 4}, {2, 2, 0, 1}} {
				Oracle.One(t, env, rec, "sweep", &Case{S: e.S.Name, D: e.D.Name, C: C, Src: Win{Kr: 3, A: w[0], B: w[1]}, Dst: Win{Kr: 4, A: w[2], B: w[3]}, Vals: vals, SameRoot: true})
			}
			// windows of windows: every way of reaching them, over longer parents
			for nest := 1; nest <= 4; nest++ {
				for _, w := range [][6]int{{16, 6, 10, 12, 0, 4}, {9, 2, 9, 14, 5, 12}, {20, 7, 11, 8, 1, 5}} {
					Oracle.One(t, env, rec, "sweep", &Case{S: e.S.Name, D: e.D.Name, C: C, Src: Win{Kr: w[0], A: w[1], B: w[2]}, Dst: Win{Kr: w[3], A: w[4], B: w[5]}, Vals: vals, SameRoot: true, Nest: nest})
				}
			}
		}
	}
	// results equal to what the destination already holds (zeros of both signs), for every instantiation
	for _, e := range convtab.Entries {
		var vals []kit.Val
		if e.S.Kind == kit.Float {
			vals = []kit.Val{kit.FV(0), kit.FV(math.Copysign(0, -1)), kit.FV(1e-300), kit.FV(-1e-300), kit.FV(0.5)}
		} else {
			vals = []kit.Val{convtab.AmpToCode(e.S, 0), convtab.AmpToCode(e.S, 1), convtab.AmpToCode(e.S, -1)}
		}
		for fill := 1; fill <= 2; fill++ {
			Oracle.One(t, env, rec, "sweep", &Case{S: e.S.Name, D: e.D.Name, C: 2, Src: Win{Kr: 6, A: 1, B: 6}, Dst: Win{Kr: 7, A: 0, B: 6, Fix: fill % 3}, Vals: vals, DstFill: fill})
		}
	}
	// every boundary float (incl. the neighbours of MaxFloat32, subnormals, infinities, NaN) through the four float-to-float conversions
	for _, e := range convtab.Select("FloatAsFloat") {
		b := bFloat64
		if e.S.Bits == 32 {
			b = bFloat32
		}
		var vals []kit.Val
		for _, f := range b {
			vals = append(vals, kit.FV(f))
		}
		for _, nan := range kit.NaNs {
			vals = append(vals, kit.FV(nan))
		}
		n := len(vals)
		Oracle.One(t, env, rec, "sweep", &Case{S: e.S.Name, D: e.D.Name, C: 1, Src: Win{Kr: n, A: 0, B: n}, Dst: Win{Kr: n + 1, A: 0, B: n + 1, Fix: 1}, Vals: vals})
	}
	// one very long buffer pair per instantiation (block / parallel fast paths): a common prefix of
	// 65536+k samples that is not a multiple of 4 or 8, destination longer than the source
	huge := convtab.Entries
	if !env.Thorough() { // quick: the float-to-float ones and one instantiation of each of the other functions
		huge = nil
		seen := map[string]bool{}
		for _, e := range convtab.Entries {
			if e.Fn == "FloatAsFloat" || !seen[e.Fn] {
				huge = append(huge, e)
				seen[e.Fn] = true
			}
		}
	}
	for i, e := range huge {
		C, n := 1, 65537+i%3 // common prefixes 65537, 65538, 65539: not multiples of 4
		if i%4 == 3 {
			C, n = 3, 21847 // 65541 samples
		}
		var vals []kit.Val
		if e.S.Kind == kit.Float {
			vals = []kit.Val{kit.FV(0.5), kit.FV(-0.25), kit.FV(0.125), kit.FV(-1), kit.FV(0.75)}
		} else {
			hi := int64(1)<<(e.S.Bits-1) - 1
			for _, a := range []int64{0, 1, -1, hi, -hi - 1, hi / 3, 77} {
				vals = append(vals, convtab.AmpToCode(e.S, a))
			}
		}
		Oracle.One(t, env, rec, "sweep", &Case{S: e.S.Name, D: e.D.Name, C: C, Src: Win{Kr: n + 2, A: 1, B: n + 1, Fix: i % 3}, Dst: Win{Kr: n + 9, A: 2, B: n + 7}, Vals: vals})
	}
	rec.Exhaustive("169 instantiations x C<=3 x all (source window, destination window) pairs over roots <=2(3) frames incl. partial last frames", true)
}
