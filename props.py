"""Per-property configuration of the driver: package, engines, budgets, rule text."""

COMMON_ASSUME = [
    "go1.23.5 linux/amd64; the harness imports pipelined.dev/signal from /repo through a replace directive, so every run compiles /repo's current working tree",
    "oracles are written from the property statement (plain-slice / exact-arithmetic models) and use only the exported API",
]

PROPS = {
    "C01": dict(
        pkg="c01", idx=1,
        rule=("Cases = (slice type S, buffer type B) from all 169 pairs x channels x window [a,b) of a sentinel-filled root "
              "(optionally with a partial last frame) x 1-3 operations from {Write, Read, WriteStriped, ReadStriped} with "
              "input/output lengths drawn relative to the buffer (0, shorter, equal, +1, much longer; striped: per-channel "
              "nil/empty/uneven). rapid-generated plus an exhaustive small grid per pair. Oracle: plain-slice model of the "
              "whole root storage, returned count, caller slices and both headers compared after every operation. "
              "Non-trivial: length mismatch, window strictly inside its root, partial last frame with >=2 channels, "
              "nil/empty/uneven striped member, S != B, or write-then-read round trip. Distinct = distinct 64-bit "
              "fingerprint of the canonical case."),
        quick=dict(rapid=dict(checks=60000, shards=2)),
        thorough=dict(rapid=dict(checks=300000, shards=16), fuzz=dict(targets=["FuzzC01"], seconds=45)),
        assumptions=COMMON_ASSUME,
        technique="property-based testing (rapid) + bounded-exhaustive sweep + native fuzzing against a plain-slice reference model with whole-storage frame condition",
        level_text=("Generated-input search: every reader/writer call is compared with a plain-slice model of the whole root storage "
                    "(values, untouched remainder, caller slices, headers, returned count) over all 169 element-type pairs, windows, "
                    "partial frames and short/long/uneven inputs; exhaustive on a small grid per pair, sampled elsewhere. "
                    "Exploration, not proof: absence is shown only for the enumerated grid."),
        level_note="Trusts Go's numeric conversions for values representable in both types, Alloc/Slice/AppendSample to build fixtures (themselves decided by C13/C02/C04), and the harness model.",
    ),
}
PROPS["C02"] = dict(
    pkg="c02", idx=2,
    rule=("Cases = element type x channels x root size x chain of 1-5 Slice(start,end) calls, each valid (end beyond the length, "
          "start 0, general) or invalid (start<0, start>end, end>capacity by 1 / by much, extreme magnitudes whose product with the "
          "channel count overflows). Oracle: Go-slice model (off,len,cap) in frames; child header, additive composition, sharing "
          "probed by writing stamps through the child and reading through parent and root and back, capacity region read through a "
          "capacity-long reslice, parent header and root storage unchanged; invalid ranges must panic and change nothing. "
          "Non-trivial: end beyond parent length, nesting depth >= 2, parent is an offset window, invalid range, overflowing argument."),
    quick=dict(rapid=dict(checks=40000, shards=2)),
    thorough=dict(rapid=dict(checks=200000, shards=16), fuzz=dict(targets=["FuzzC02"], seconds=30)),
    assumptions=COMMON_ASSUME,
    technique="property-based testing (rapid) + bounded-exhaustive two-level sweep against a Go-slice view model with bidirectional sharing probes",
    level_text=("Generated-input search over nested Slice chains, valid and invalid, against an (offset,len,cap) model; exhaustive for "
                "C<=3, K<=3 (5 thorough) over all first- and second-level ranges in [-2,K+2]^2 for all 13 types; extreme arguments sampled."),
    level_note="Trusts Alloc and Sample/SetSample to build and observe fixtures; panics are observed with recover().",
)
PROPS["C03"] = dict(
    pkg="c03", idx=3,
    rule=("Cases = element type x channels 1..8 x frame-aligned destination window [a,b) of a sentinel-filled root (spare capacity 0, "
          "exact fit, one frame short, far too small, zero capacity) with a live sibling view over its spare region x 1-4 appends whose "
          "source is the destination itself, a window of the same root that does not reach into the spare capacity, or a window of a "
          "separate buffer. Oracle: contents = old ++ source, Len += source Len, Cap a whole number of frames >= Len, source unchanged; "
          "in place: Cap unchanged, appended samples read through the sibling view, whole root equals the model; growth: every storage "
          "the destination left is unchanged, also after stamping the destination's whole new capacity. Non-trivial: growth, in-place "
          "append seen through another view, non-empty self-append, >=2 appends, exact fit, one frame short."),
    quick=dict(rapid=dict(checks=40000, shards=2)),
    thorough=dict(rapid=dict(checks=150000, shards=16), fuzz=dict(targets=["FuzzC03"], seconds=30)),
    assumptions=COMMON_ASSUME,
    technique="property-based testing (rapid) + bounded-exhaustive sweep against a plain-slice storage model with aliasing views and independence stamps",
    level_text=("Generated-input search over destination/source shape combinations and repeated appends against a storage-graph model; "
                "exhaustive for C<=3, roots <=3 (4) frames, all admissible sources and a second append, for 6 types; larger shapes sampled."),
    level_note="Capacity after growth is read from the implementation and only constrained (>= Len, multiple of channels), as the property states; trusts Alloc/Slice/Sample to build and observe fixtures.",
)
PROPS["C04"] = dict(
    pkg="c04", idx=4,
    rule=("Cases = element type x channels x window [a,b) of a sentinel-filled root (a>0 common, spare capacity 0..many, zero capacity) x N "
          "AppendSample calls with N below, at, one above and far beyond (3*cap+5) the spare capacity. Oracle: sequence model - while Len<Cap "
          "the value lands at interleaved position Len (read back through the root alias, proving storage identity), Len+=1, Length=ceil(Len/C); "
          "at Len==Cap nothing changes; Cap constant; whole root storage compared with the model (nothing outside the window's capacity written). "
          "Non-trivial: N crosses the capacity, window starts at a later frame, zero capacity, or partial frames with >=2 channels."),
    quick=dict(rapid=dict(checks=40000, shards=2)),
    thorough=dict(rapid=dict(checks=150000, shards=16), fuzz=dict(targets=["FuzzC04"], seconds=30)),
    assumptions=COMMON_ASSUME,
    technique="property-based testing (rapid) + bounded-exhaustive sweep against a sequence model with whole-storage frame condition",
    level_text=("Generated call sequences against a sequence model; exhaustive for all 13 types, C<=4, roots <=3 (5) frames, all windows, every call "
                "count 0..spare+C+1 and far beyond capacity; larger shapes sampled."),
    level_note="Trusts Alloc/Slice/Sample to build and observe fixtures.",
)

PROPS["C05"] = dict(
    pkg="c05", idx=5,
    rule=("Cases = one of the 169 conversion instantiations x channels x independent source and destination windows (unequal lengths both "
          "ways, equal, empty, partial last frames, windows inside larger roots) x source values from the boundary-dense and random domains of the "
          "source format (out-of-range floats, infinities; NaN only for floating-to-floating). Oracle: returned count = min of per-channel lengths; "
          "source root, destination root outside the common prefix and all headers unchanged (whole-storage snapshots); result k equals the same "
          "sample converted alone in a fresh 1-sample buffer (position-wise law); floating-to-floating additionally equals Go's conversion "
          "bit for bit. Non-trivial: length mismatch, window source/destination, >=2 channels, partial frame, float beyond [-1,1]/non-finite."),
    quick=dict(rapid=dict(checks=40000, shards=2)),
    thorough=dict(rapid=dict(checks=250000, shards=16), fuzz=dict(targets=["FuzzC05"], seconds=45)),
    assumptions=COMMON_ASSUME,
    technique="property-based testing (rapid) + bounded-exhaustive shape sweep: whole-storage frame condition plus metamorphic single-sample re-conversion; direct oracle for float-to-float",
    level_text=("Generated-input search over all 169 instantiations; exhaustive over all window pairs of roots <=2 (3) frames, C<=3, per instantiation; "
                "values and larger shapes sampled. The numeric correctness of the point function is C06-C09's."),
    level_note="The position-wise law compares two contexts of the same conversion; trusts Alloc/Slice/AppendSample/Sample to build fixtures.",
)
PROPS["C13"] = dict(
    pkg="c13", idx=13,
    rule=("Cases = element type from the 13 built-in and 13 named types x (C in 1..64, 0<=L<=K up to 4096, size-biased) x a second allocation "
          "(same or different shape). Oracle: Channels/Length/Capacity/Len=C*L/Cap=C*K, BitDepth = 8*sizeof(T) computed by the harness, every "
          "sample over Slice(0,K) zero, and independence by stamping one allocation's whole capacity and re-reading the other, both ways. "
          "Non-trivial: L<K (zero fill beyond the length observable), named type, or >=2 channels."),
    quick=dict(rapid=dict(checks=20000, shards=2)),
    thorough=dict(rapid=dict(checks=100000, shards=16), fuzz=dict(targets=["FuzzC13"], seconds=20)),
    assumptions=COMMON_ASSUME,
    technique="property-based testing (rapid) + bounded-exhaustive shape sweep with zero-fill and independence stamps",
    level_text=("Exhaustive over 26 types x C<=8 (16) x all L<=K<=6 (9); larger shapes (C to 64, K to 4096) sampled by rapid."),
    level_note="Trusts Slice and Sample/SetSample to observe the capacity region; bit width of int/uint/uintptr is this platform's (64).",
)

PROPS["C14"] = dict(
    pkg="c14", idx=14,
    rule=("Cases = element type x C in 1..8 x frame-aligned parent window [a,b) of a sentinel-filled root x channel c x indices (all below the "
          "per-channel length for small windows, a drawn subset for large). Oracle: view.Sample(i) = root position C*(a+i)+c computed by the harness; "
          "view.SetSample(i,v) changes exactly that root position (whole-storage diff) and reads back v through the view; Channels()=1, "
          "Length/Capacity = parent's; BufferIndex(c,i) = C*i+c. Non-trivial: C>=2 and (c != 1 or i >= 1) - what the suite's self-cancelling "
          "comparison on channel 1 cannot see - or a parent starting at a later frame."),
    quick=dict(rapid=dict(checks=20000, shards=2)),
    thorough=dict(rapid=dict(checks=100000, shards=16), fuzz=dict(targets=["FuzzC14"], seconds=20)),
    assumptions=COMMON_ASSUME,
    technique="property-based testing (rapid) + exhaustive sweep over channels/indices against harness-computed interleaved positions with whole-storage diff",
    level_text=("Exhaustive over 13 types x C 1..8 x roots <=6 (9) frames x all windows x every channel x every index; larger parents sampled."),
    level_note="BufferIndex is called with the view's own channel as first argument (as the repository's test does). Trusts Alloc/Slice and root Sample/SetSample.",
)
PROPS["C15"] = dict(
    pkg="c15", idx=15,
    rule=("Cases = one of the 13 guarded entry points with mismatching shapes: the nine conversions (all 169 instantiations) and Append with "
          "different channel counts, ReadStriped/WriteStriped (169 type pairs) with a slice count != channel count (nil members included), "
          "PoolAllocator.Put of a buffer whose total capacity differs (other K, smaller K, other channel count, window from a later frame, "
          "buffer grown by Append), with or without a legitimate buffer already pooled; operands are non-empty sentinel-filled windows. "
          "Oracle: the call panics; afterwards both operands' whole root storage, headers and the caller's slices are unchanged; for Put the "
          "rejected buffer is intact (not cleared) and the next three Gets return allocator-shaped zeroed buffers. Every case is a mismatch "
          "by construction; distinct = distinct (entry point, types, shapes)."),
    quick=dict(rapid=dict(checks=20000, shards=2)),
    thorough=dict(rapid=dict(checks=100000, shards=16), fuzz=dict(targets=["FuzzC15"], seconds=20)),
    assumptions=COMMON_ASSUME,
    technique="bounded-exhaustive cross product of guarded entry points x shape mismatches + property-based testing (rapid); oracle = panic observed by recover plus whole-state snapshots",
    level_text=("Exhaustive cross product: 169 conversions + Append x all ordered pairs of different channel counts 1..4 x 3 shapes; striped forms x 169 "
                "type pairs x slice counts 0..5; Put x 13 types x 5 mismatch kinds; larger shapes sampled by rapid."),
    level_note="A pool that swallowed a foreign buffer is detected through the next Gets (sync.Pool hands back recently put objects on the same P); trusts recover() and the fixtures.",
)
PROPS["C20"] = dict(
    pkg="c20", idx=20,
    rule=("Cases = a degenerate allocator (zero value; zero channels with non-zero L<=K; C>=1 with zero capacity; K>0 with zero length) x element "
          "types x every exported entry point: size methods, Read/Write/ReadStriped/WriteStriped (169 type pairs, slices of length 0..40, nil "
          "members), the nine conversions (169 instantiations; degenerate source, destination or both; same-channel partner of 0..40 frames), "
          "AppendSample, Append of an empty buffer and of itself, Slice(0,0), Channel(0) size methods, pool Get/Put, ChannelLength(n,0). "
          "Oracle: no panic; sizes 0 for zero-channel/zero-capacity buffers; every read/write/conversion returns 0 and leaves caller slices, "
          "partner storage and the buffer's capacity region untouched; AppendSample/Append(empty) leave Len 0; ChannelLength(n,0) in [0,n]. "
          "Every case is degenerate by construction; distinct = distinct (entry point, shape, types, lengths)."),
    quick=dict(rapid=dict(checks=20000, shards=2)),
    thorough=dict(rapid=dict(checks=100000, shards=16), fuzz=dict(targets=["FuzzC20"], seconds=20)),
    assumptions=COMMON_ASSUME,
    technique="bounded-exhaustive cross product of entry points x degenerate shapes + property-based testing (rapid); oracle = no panic, zero counts, whole-state snapshots",
    level_text=("Exhaustive cross product of every exported entry point x every degenerate allocator on a small grid x all types/pairs/instantiations; "
                "larger degenerate shapes and partner sizes sampled by rapid."),
    level_note="For ChannelLength(n>0, 0), a combination no buffer can produce, only 'no panic and a result in [0,n]' is demanded.",
)

NOT_APPLICABLE = {}
