"""Per-property configuration of the driver: package, engines, budgets, rule text."""

COMMON_ASSUME = [
    "go1.23.5 linux/amd64; the harness imports pipelined.dev/signal from /repo through a replace directive, so every run compiles /repo's current working tree",
    "oracles are written from the property statement (plain-slice / exact-arithmetic models) and use only the exported API",
]

PROPS = {
    "C01": dict(
        pkg="c01", idx=1,
        rule=("Cases = (slice type S, buffer type B) from all 169 pairs x channels x window [a,b) of a sentinel-filled root "
              "(optionally with a partial last frame) x 1-3 operations from {Write, Read, WriteStriped, ReadStriped} with "
              "input/output lengths drawn relative to the buffer (0, shorter, equal, +1, much longer; striped: per-channel "
              "nil/empty/uneven). rapid-generated plus an exhaustive small grid per pair. Oracle: plain-slice model of the "
              "whole root storage, returned count, caller slices and both headers compared after every operation. "
              "Non-trivial: length mismatch, window strictly inside its root, partial last frame with >=2 channels, "
              "nil/empty/uneven striped member, S != B, or write-then-read round trip. Distinct = distinct 64-bit "
              "fingerprint of the canonical case."
          " Fixtures are built in three construction orders (fill-then-slice, slice-then-fill, fill through an alias); caller slices are windows of larger caller-owned arrays whose tails are compared too; channel counts reach 140; values representable in both types include short-mantissa integers up to the integer type's range and +0/-0; sweeps add 65536+k-sample buffers. Window content may also be appended in two pieces (single samples, then an in-place Append of the rest) so that both pieces end in partial frames. Further windows of the same parent are cut while the window under test is alive; nine slice/buffer pairs use named element types; channel counts around 256 are swept. Three calls move more than 2^20 samples."),
        quick=dict(rapid=dict(checks=100000, shards=8)),
        thorough=dict(rapid=dict(checks=400000, shards=16), fuzz=dict(targets=["FuzzC01"], seconds=45)),
        assumptions=COMMON_ASSUME,
        technique="property-based testing (rapid) + bounded-exhaustive sweep + native fuzzing against a plain-slice reference model with whole-storage frame condition",
        level_text=("Generated-input search: every reader/writer call is compared with a plain-slice model of the whole root storage "
                    "(values, untouched remainder, caller slices, headers, returned count) over all 169 element-type pairs, windows, "
                    "partial frames and short/long/uneven inputs; exhaustive on a small grid per pair, sampled elsewhere. "
                    "Exploration, not proof: absence is shown only for the enumerated grid."),
        level_note="Trusts Go's numeric conversions for values representable in both types, Alloc/Slice/AppendSample to build fixtures (themselves decided by C13/C02/C04), and the harness model.",
    ),
}
PROPS["C02"] = dict(
    pkg="c02", idx=2,
    rule=("Cases = element type x channels x root size x chain of 1-5 Slice(start,end) calls, each valid (end beyond the length, "
          "start 0, general) or invalid (start<0, start>end, end>capacity by 1 / by much, extreme magnitudes whose product with the "
          "channel count overflows). Oracle: Go-slice model (off,len,cap) in frames; child header, additive composition, sharing "
          "probed by writing stamps through the child and reading through parent and root and back, capacity region read through a "
          "capacity-long reslice, parent header and root storage unchanged; invalid ranges must panic and change nothing. "
          "Non-trivial: end beyond parent length, nesting depth >= 2, parent is an offset window, invalid range, overflowing argument."
          ' Parents may end in a partial frame (samples appended before slicing) or be the result of a growing Append (capacity not a whole number of frames); after every valid Slice one frame is appended through the view and through the parent and the other header must not move.'),
    quick=dict(rapid=dict(checks=100000, shards=8)),
    thorough=dict(rapid=dict(checks=300000, shards=16), fuzz=dict(targets=["FuzzC02"], seconds=30)),
    assumptions=COMMON_ASSUME,
    technique="property-based testing (rapid) + bounded-exhaustive two-level sweep against a Go-slice view model with bidirectional sharing probes",
    level_text=("Generated-input search over nested Slice chains, valid and invalid, against an (offset,len,cap) model; exhaustive for "
                "C<=3, K<=3 (5 thorough) over all first- and second-level ranges in [-2,K+2]^2 for all 13 types; extreme arguments sampled. Three named element types; channel counts around 256 and 65536 are swept. Roots of 2^24+9 .. 2^25+1 samples: window shapes and the sharing of first and last samples (huge cases). Two roots of more than 2^31 and 2^32 int8 samples (virtual memory; skipped when MemAvailable is below four times the size)."),
    level_note="Trusts Alloc and Sample/SetSample to build and observe fixtures; panics are observed with recover().",
)
PROPS["C03"] = dict(
    pkg="c03", idx=3,
    rule=("Cases = element type x channels 1..8 x frame-aligned destination window [a,b) of a sentinel-filled root (spare capacity 0, "
          "exact fit, one frame short, far too small, zero capacity) with a live sibling view over its spare region x 1-4 appends whose "
          "source is the destination itself, a window of the same root that does not reach into the spare capacity, or a window of a "
          "separate buffer. Oracle: contents = old ++ source, Len += source Len, Cap a whole number of frames >= Len, source unchanged; "
          "in place: Cap unchanged, appended samples read through the sibling view, whole root equals the model; growth: every storage "
          "the destination left is unchanged, also after stamping the destination's whole new capacity. Non-trivial: growth, in-place "
          "append seen through another view, non-empty self-append, >=2 appends, exact fit, one frame short."
          ' Channel counts follow the shared distribution (1..8 mostly, up to 140); sources of floating types contain -0.0; after a growth the source is probed for write-through in both directions and an unrelated buffer of the same type grows to about the abandoned size; sweeps add wide frames (16..65 channels) and 65536+k-sample appends.'),
    quick=dict(rapid=dict(checks=60000, shards=8)),
    thorough=dict(rapid=dict(checks=200000, shards=16), fuzz=dict(targets=["FuzzC03"], seconds=30)),
    assumptions=COMMON_ASSUME,
    technique="property-based testing (rapid) + bounded-exhaustive sweep against a plain-slice storage model with aliasing views and independence stamps",
    level_text=("Generated-input search over destination/source shape combinations and repeated appends against a storage-graph model; "
                "exhaustive for C<=3, roots <=3 (4) frames, all admissible sources and a second append, for 6 types; larger shapes sampled. Three named element types; channel counts around 256 are swept. Sources also hold subnormals, infinities and fractions (floating types)."),
    level_note="Capacity after growth is read from the implementation and only constrained (>= Len, multiple of channels), as the property states; trusts Alloc/Slice/Sample to build and observe fixtures.",
)
PROPS["C04"] = dict(
    pkg="c04", idx=4,
    rule=("Cases = element type x channels x window [a,b) of a sentinel-filled root (a>0 common, spare capacity 0..many, zero capacity) x N "
          "AppendSample calls with N below, at, one above and far beyond (3*cap+5) the spare capacity. Oracle: sequence model - while Len<Cap "
          "the value lands at interleaved position Len (read back through the root alias, proving storage identity), Len+=1, Length=ceil(Len/C); "
          "at Len==Cap nothing changes; Cap constant; whole root storage compared with the model (nothing outside the window's capacity written). "
          "Non-trivial: N crosses the capacity, window starts at a later frame, zero capacity, or partial frames with >=2 channels."
          ' Fixtures in three construction orders, parents that were offered samples while full, buffers produced by a growing Append of partial frames (capacity not a whole number of frames), and -0.0 among the appended values.'),
    quick=dict(rapid=dict(checks=60000, shards=8)),
    thorough=dict(rapid=dict(checks=200000, shards=16), fuzz=dict(targets=["FuzzC04"], seconds=30)),
    assumptions=COMMON_ASSUME,
    technique="property-based testing (rapid) + bounded-exhaustive sweep against a sequence model with whole-storage frame condition",
    level_text=("Generated call sequences against a sequence model; exhaustive for all 13 types, C<=4, roots <=3 (5) frames, all windows, every call "
                "count 0..spare+C+1 and far beyond capacity; larger shapes sampled. Buffers produced by a growing Append are tested themselves and through windows of them (capacity of the window not a whole number of frames). Three named element types; channel counts 255..257 and 65535..65537 are swept, 255..513 drawn rarely. Appended values include -0, subnormals, +Inf, -MaxFloat and a fraction for the floating types. Midway the same frames are sliced twice in a row (the first of the two grows by a sample): the second must be a window of the original length."),
    level_note="Trusts Alloc/Slice/Sample to build and observe fixtures.",
)

PROPS["C05"] = dict(
    pkg="c05", idx=5,
    rule=("Cases = one of the 169 conversion instantiations x channels x independent source and destination windows (unequal lengths both "
          "ways, equal, empty, partial last frames, windows inside larger roots) x source values from the boundary-dense and random domains of the "
          "source format (out-of-range floats, infinities; NaN only for floating-to-floating). Oracle: returned count = min of per-channel lengths; "
          "source root, destination root outside the common prefix and all headers unchanged (whole-storage snapshots); result k equals the same "
          "sample converted alone in a fresh 1-sample buffer (position-wise law); floating-to-floating additionally equals Go's conversion "
          "bit for bit. Non-trivial: length mismatch, window source/destination, >=2 channels, partial frame, float beyond [-1,1]/non-finite."
          ' Windows in three construction orders; destination optionally pre-filled with +0/-0; for same-type instantiations the two windows may be cut from one parent; every boundary float goes through the four float-to-float instantiations; one 65537..65541-sample case per instantiation. History mode: generated orders of instantiations are replayed in fresh child processes (the test binary re-executes itself); each step over a fixed probe set must equal the same instantiation as the first library call of a process.'),
    quick=dict(rapid=dict(checks=80000, shards=8), det="TestRegress|TestSweep|TestHistory"),
    thorough=dict(rapid=dict(checks=300000, shards=16), fuzz=dict(targets=["FuzzC05"], seconds=45), det="TestRegress|TestSweep|TestHistory"),
    assumptions=COMMON_ASSUME,
    technique="property-based testing (rapid) + bounded-exhaustive shape sweep: whole-storage frame condition plus metamorphic single-sample re-conversion; direct oracle for float-to-float; metamorphic process-history independence (generated call orders replayed in fresh processes)",
    level_text=("Generated-input search over all 169 instantiations; exhaustive over all window pairs of roots <=2 (3) frames, C<=3, per instantiation; "
                "values and larger shapes sampled. The numeric correctness of the point function is C06-C09's. Operand content may be appended in two pieces (single samples, then an in-place Append), both ending in partial frames. 34 instantiations with named element types are part of the table. The whole root header itself, filled only through an alias, may be the operand (fix 3)."),
    level_note="The position-wise law compares two contexts of the same conversion; trusts Alloc/Slice/AppendSample/Sample to build fixtures.",
)
PROPS["C13"] = dict(
    pkg="c13", idx=13,
    rule=("Cases = element type from the 13 built-in and 13 named types x (C in 1..64, 0<=L<=K up to 4096, size-biased) x a second allocation "
          "(same or different shape). Oracle: Channels/Length/Capacity/Len=C*L/Cap=C*K, BitDepth = 8*sizeof(T) computed by the harness, every "
          "sample over Slice(0,K) zero, and independence by stamping one allocation's whole capacity and re-reading the other, both ways. "
          "Non-trivial: L<K (zero fill beyond the length observable), named type, or >=2 channels."
          ' Sweeps cover every channel count 1..64 and mass allocations (thousands of equal-sized buffers kept alive, sizes dividing powers of two).'),
    quick=dict(rapid=dict(checks=20000, shards=8)),
    thorough=dict(rapid=dict(checks=100000, shards=16), fuzz=dict(targets=["FuzzC13"], seconds=20)),
    assumptions=COMMON_ASSUME,
    technique="property-based testing (rapid) + bounded-exhaustive shape sweep with zero-fill and independence stamps",
    level_text=("Exhaustive over 26 types x C<=8 (16) x all L<=K<=6 (9); larger shapes (C to 64, K to 4096) sampled by rapid. In a third of the pairs nothing is sliced before the first store: direct reads up to the length, fill to capacity by AppendSample, an allocation made afterwards read directly. After the pair checks the first allocation grows by an Append: the second and a fresh allocation of the first shape must not notice; Len()/Cap() are compared with the storage itself. The view cut from the first allocation before it grew and the fresh allocation are written through in turn."),
    level_note="Trusts Slice and Sample/SetSample to observe the capacity region; bit width of int/uint/uintptr is this platform's (64).",
)

PROPS["C14"] = dict(
    pkg="c14", idx=14,
    rule=("Cases = element type x C in 1..8 x frame-aligned parent window [a,b) of a sentinel-filled root x channel c x indices (all below the "
          "per-channel length for small windows, a drawn subset for large). Oracle: view.Sample(i) = root position C*(a+i)+c computed by the harness; "
          "view.SetSample(i,v) changes exactly that root position (whole-storage diff) and reads back v through the view; Channels()=1, "
          "Length/Capacity = parent's; BufferIndex(c,i) = C*i+c. Non-trivial: C>=2 and (c != 1 or i >= 1) - what the suite's self-cancelling "
          "comparison on channel 1 cannot see - or a parent starting at a later frame."
          ' Fixtures in three construction orders; the parent may grow (in place or to new storage) between taking the view and using it; +0/-0 are written through float views; BufferIndex is called with several channel arguments.'),
    quick=dict(rapid=dict(checks=40000, shards=8)),
    thorough=dict(rapid=dict(checks=150000, shards=16), fuzz=dict(targets=["FuzzC14"], seconds=20)),
    assumptions=COMMON_ASSUME,
    technique="property-based testing (rapid) + exhaustive sweep over channels/indices against harness-computed interleaved positions with whole-storage diff",
    level_text=("Exhaustive over 13 types x C 1..8 x roots <=6 (9) frames x all windows x every channel x every index; larger parents sampled. In a third of the cases views of the root or of an intermediate window were taken before the parent window was cut. Rare long parents (66000..132000 samples) are probed around interleaved positions 2^16 and 2^17. Named element types; floating probes are fractions, infinities and a value beyond 2^31. Probe values include subnormals of the element type."),
    level_note="BufferIndex is called with the view's own channel as first argument (as the repository's test does). Trusts Alloc/Slice and root Sample/SetSample.",
)
PROPS["C15"] = dict(
    pkg="c15", idx=15,
    rule=("Cases = one of the 13 guarded entry points with mismatching shapes: the nine conversions (all 169 instantiations) and Append with "
          "different channel counts, ReadStriped/WriteStriped (169 type pairs) with a slice count != channel count (nil members included), "
          "PoolAllocator.Put of a buffer whose total capacity differs (other K, smaller K, other channel count, window from a later frame, "
          "buffer grown by Append), with or without a legitimate buffer already pooled; operands are non-empty sentinel-filled windows. "
          "Oracle: the call panics; afterwards both operands' whole root storage, headers and the caller's slices are unchanged; for Put the "
          "rejected buffer is intact (not cleared) and the next three Gets return allocator-shaped zeroed buffers. Every case is a mismatch "
          "by construction; distinct = distinct (entry point, types, shapes)."
          " Operands may end in partial frames; the caller's outer slice may have further per-channel slices behind its length. Operands may hold fewer samples than one frame (1..C-1 single samples in an empty window). Put of a buffer grown to a partial last frame into a pool of the whole frames below its length; whether a case is a mismatch is decided from the storage's capacity, not from Cap(). A burst of up to 100 legitimate get/put pairs may precede the mismatching Put. Every rejected Put is repeated once: it must panic again and change nothing. Zero slices are also passed as a nil outer slice."),
    quick=dict(rapid=dict(checks=40000, shards=8)),
    thorough=dict(rapid=dict(checks=150000, shards=16), fuzz=dict(targets=["FuzzC15"], seconds=20)),
    assumptions=COMMON_ASSUME,
    technique="bounded-exhaustive cross product of guarded entry points x shape mismatches + property-based testing (rapid); oracle = panic observed by recover plus whole-state snapshots",
    level_text=("Exhaustive cross product: 169 conversions + Append x all ordered pairs of different channel counts 1..4 x 3 shapes; striped forms x 169 "
                "type pairs x slice counts 0..5; Put x 13 types x 5 mismatch kinds; larger shapes sampled by rapid."),
    level_note="A pool that swallowed a foreign buffer is detected through the next Gets (sync.Pool hands back recently put objects on the same P); trusts recover() and the fixtures.",
)
PROPS["C20"] = dict(
    pkg="c20", idx=20,
    rule=("Cases = a degenerate allocator (zero value; zero channels with non-zero L<=K; C>=1 with zero capacity; K>0 with zero length) x element "
          "types x every exported entry point: size methods, Read/Write/ReadStriped/WriteStriped (169 type pairs, slices of length 0..40, nil "
          "members), the nine conversions (169 instantiations; degenerate source, destination or both; same-channel partner of 0..40 frames), "
          "AppendSample, Append of an empty buffer and of itself, Slice(0,0), Channel(0) size methods, pool Get/Put, ChannelLength(n,0). "
          "Oracle: no panic; sizes 0 for zero-channel/zero-capacity buffers; every read/write/conversion returns 0 and leaves caller slices, "
          "partner storage and the buffer's capacity region untouched; AppendSample/Append(empty) leave Len 0; ChannelLength(n,0) in [0,n]. "
          "Every case is degenerate by construction; distinct = distinct (entry point, shape, types, lengths)."
          ' Zero-channel allocators with any length/capacity (also length > capacity); a zero-capacity pool after one of its buffers was grown.'),
    quick=dict(rapid=dict(checks=50000, shards=8)),
    thorough=dict(rapid=dict(checks=200000, shards=16), fuzz=dict(targets=["FuzzC20"], seconds=20)),
    assumptions=COMMON_ASSUME,
    technique="bounded-exhaustive cross product of entry points x degenerate shapes + property-based testing (rapid); oracle = no panic, zero counts, whole-state snapshots",
    level_text=("Exhaustive cross product of every exported entry point x every degenerate allocator on a small grid x all types/pairs/instantiations; "
                "larger degenerate shapes and partner sizes sampled by rapid. Pooled zero-length buffers are used (AppendSample) before they go back. Three named element types and nine named/underlying Read/Write pairs. After Slice(0,0) of a zero-capacity buffer one of the two grows by an Append; the other must stay inert. Two to four buffers of a degenerate pool are outstanding together and all put back. Empty zero-capacity buffers with 0..3 channels allocated elsewhere are offered to every pool without storage. Degenerate buffers with 255..2^17 channels (around the ranges of 8- and 16-bit counters) are swept and drawn."),
    level_note="For ChannelLength(n>0, 0), a combination no buffer can produce, only 'no panic and a result in [0,n]' is demanded.",
)
NUM_ASSUME = COMMON_ASSUME + [
    "amplitude = code (signed) or code - 2^(depth-1) (unsigned), depth = bit width of the element type, computed by the harness in exact int64 / 128-bit / math/big arithmetic",
    "conversions are driven through 1-channel buffers (position independence is C05's)",
]

PROPS["C06"] = dict(
    pkg="c06", idx=6,
    rule=("Cases = one of the 121 fixed-to-fixed instantiations x a list of source amplitudes. Sweep: every code of int8/uint8/int16/uint16 sources "
          "(both tiers) and of int32/uint32 sources (thorough), in amplitude order, for all 11 destinations; boundary-dense codes (bounds, 0, +-1, "
          "+-2^k+{-3..3}, +-1.5*2^k+{-3..3}) for every pair. rapid: 2-24 amplitudes per case, boundary-dense / uniform / clustered around a common base, "
          "biased to 32/64-bit sources. Oracle: over the amplitudes sorted ascending the result amplitudes never decrease; lowest->lowest, "
          "highest->highest, zero-amplitude->zero-amplitude. Non-trivial: depths differ, signedness differs, or a code the examples do not pin; "
          "exhaustively enumerated points are distinct by construction."
          ' Every case is evaluated in ascending, descending and scrambled order (results must be a function of the value), embedded in buffers padded to lengths around powers of two and beyond 65536, over 1-8 channels with real partial last frames, with the source built in three construction orders.'),
    quick=dict(rapid=dict(checks=60000, shards=8)),
    thorough=dict(rapid=dict(checks=250000, shards=16), fuzz=dict(targets=["FuzzC06"], seconds=30), timeout=3600),
    assumptions=NUM_ASSUME,
    technique="exhaustive enumeration of all 8/16/32-bit source codes in amplitude order + property-based testing (rapid) on 64-bit sources; order and reference-level oracle in exact integer arithmetic",
    level_text=("Complete enumeration of every 8- and 16-bit source code (quick) and every 32-bit source code (thorough) for all destinations decides order "
                "preservation exactly on those sub-domains; 64-bit sources are sampled densely at boundaries and at random (order is checked on sorted samples). Long and wide at once: 12 channels x 40000 and 64 channels x 70001 samples per pair in the sweep; rapid couples very long buffers with 1..64 channels. Operands may also have grown out of an empty window (Slice(fr,fr) then Append). Named element types (34 further instantiations); a source that was the output of a conversion and is converted through a window cut then (fix 5). Operands of unequal length (source or destination two frames longer). One destination buffer per destination type may be shared by all instantiations (fix 8). A source that was converted into a shorter destination before (fix 9). Output in pieces: two adjacent destination windows of one parent, the source going on beyond the first (fix 10). Same-type instantiations between adjacent windows of one parent (fix 11). One call of 150001 samples for every eighth (fourth) instantiation."),
    level_note="Order preservation between two arbitrary 64-bit inputs is only sampled; adjacent-code monotonicity on the swept domains implies it there.",
)

PROPS["C07"] = dict(
    pkg="c07", idx=7,
    rule=("Same domain as C06. Oracle: narrowing by k bits: result amplitude in {floor(a/2^k), ceil(a/2^k)}; equal depth: result amplitude = a; "
          "widening: converting back with the conversion into every element type of the source's format returns the original amplitude. "
          "Non-trivial: every code other than the five the examples pin; classes narrowing / equalDepth / widenAndBack / signednessDiffers."
          ' Cases are embedded in padded buffers (lengths around powers of two and beyond 65536), over 1-8 channels with real partial last frames, with the source built in three construction orders.'),
    quick=dict(rapid=dict(checks=60000, shards=8)),
    thorough=dict(rapid=dict(checks=250000, shards=16), fuzz=dict(targets=["FuzzC07"], seconds=30), timeout=3600),
    assumptions=NUM_ASSUME,
    technique="exhaustive enumeration of all 8/16/32-bit source codes + property-based testing (rapid) on 64-bit sources; floor/ceil accuracy oracle and widen-then-narrow round trip in exact integer arithmetic",
    level_text=("Complete enumeration of every 8/16-bit (quick) and 32-bit (thorough) source code for all 11 destinations, including every widen-and-back "
                "composition; 64-bit sources sampled at boundaries and at random. Long and wide at once: 12 channels x 40000 and 64 channels x 70001 samples per pair in the sweep; rapid couples very long buffers with 1..64 channels. Operands may also have grown out of an empty window (Slice(fr,fr) then Append). Named element types (34 further instantiations); a source that was the output of a conversion and is converted through a window cut then (fix 5). Operands of unequal length (source or destination two frames longer). One destination buffer per destination type may be shared by all instantiations (fix 8). A source that was converted into a shorter destination before (fix 9). Output in pieces: two adjacent destination windows of one parent, the source going on beyond the first (fix 10). Same-type instantiations between adjacent windows of one parent (fix 11). One call of 150001 samples for every eighth (fourth) instantiation."),
    level_note="Round trips return to every element type with the source's signedness and depth (int/int64, uint/uint64/uintptr).",
)

PROPS["C08"] = dict(
    pkg="c08", idx=8,
    rule=("Cases = one of the 22 FloatAsSigned/FloatAsUnsigned instantiations x a list of non-NaN floating inputs. Sweep: the boundary-dense float set "
          "(+-0, +-1, 1-3 ulps around +-2^k and 1.5*2^k for k=-70..70, around 256/65536/2^31/2^32/2^63/2^64 with +-n and +-0.5, subnormals, MaxFloat, "
          "+-Inf) for all 22; thorough: every non-NaN float32 bit pattern in numeric order for the 11 float32-source instantiations. rapid: 1-16 inputs "
          "per case from the boundary set, uniform bit patterns, uniform [-1.5,1.5], log-uniform 2^+-80, and points within 0-2 ulps of a quantisation "
          "boundary (k or k+-0.5)/full scale of the destination. Oracle: x>=1 -> highest code, x<=-1 -> lowest, 0 -> zero amplitude, otherwise "
          "|amplitude - x*FS| <= 1 decided exactly with a 128-bit product; codes non-decreasing over sorted inputs. Non-trivial: |x|>=1.5, infinite, "
          "adjacent to +-1, destination narrower than 64 bits."
          ' Every case is also evaluated in descending order and as x,+2,x,-Inf,x,1,x interleavings; float64 sources get float32-exact inputs at quantisation steps together with their float64 neighbours; cases are padded to long buffers and run over 1-8 channels.'),
    quick=dict(rapid=dict(checks=60000, shards=8)),
    thorough=dict(rapid=dict(checks=300000, shards=16), fuzz=dict(targets=["FuzzC08"], seconds=45), timeout=3600),
    assumptions=NUM_ASSUME + ["NaN inputs are excluded (result unspecified by the property)", "the verdict is for linux/amd64, where the library relies on the platform's float-to-integer conversion for in-range negative inputs to unsigned types"],
    technique="exhaustive enumeration of all float32 bit patterns (thorough) + boundary-dense sweep + property-based testing (rapid) and native fuzzing; clip/linearity/monotonicity oracle decided with exact 128-bit arithmetic",
    level_text=("Every non-NaN float32 input for all 11 float32-source instantiations is enumerated in numeric order (thorough), which decides clipping, accuracy and "
                "monotonicity exactly there; float64 inputs are sampled densely at the boundaries the property names and at random. Long and wide at once: 12 channels x 40000 and 64 channels x 70001 samples per instantiation in the sweep; rapid couples very long buffers with 1..64 channels. Operands may also have grown out of an empty window (Slice(fr,fr) then Append). Named element types (34 further instantiations); a source that was the output of a conversion and is converted through a window cut then (fix 5). Operands of unequal length (source or destination two frames longer). One destination buffer per destination type may be shared by all instantiations (fix 8). A source that was converted into a shorter destination before (fix 9). Output in pieces: two adjacent destination windows of one parent, the source going on beyond the first (fix 10). Same-type instantiations between adjacent windows of one parent (fix 11). One call of 150001 samples for every eighth (fourth) instantiation."),
    level_note="The one-step tolerance is the property's own; the oracle has no floating tolerance of its own (exact integer comparison).",
)

PROPS["C09"] = dict(
    pkg="c09", idx=9,
    rule=("Cases = one of the 22 SignedAsFloat/UnsignedAsFloat instantiations x a list of source amplitudes (as C06). Sweep: every 8/16-bit code (quick) "
          "and 32-bit code (thorough) in amplitude order into float32 and float64. Oracle: result in [-1,1]; lowest -> -1, zero amplitude -> 0, highest -> 1 "
          "exactly; non-decreasing; |result - a/FS| <= 2^-(d-1) + 4 ulp (float64 fast path with guard band, math/big inside it and for 64-bit); for d<=32 "
          "into float64 distinct codes give distinct values and FloatAsSigned/FloatAsUnsigned back into the source type returns the code; through float32 "
          "with d<=16 the round trip is within one step. Known finding F9 is recognised by its structural predicate and excluded so the sweep continues. "
          "Non-trivial: codes the examples do not pin, round-trip cases, depth>=16."
          ' Cases are embedded in padded buffers (the 8-bit codes at lengths 256..70001), over 1-8 channels with real partial last frames, with the source built in three construction orders.'),
    quick=dict(rapid=dict(checks=60000, shards=8)),
    thorough=dict(rapid=dict(checks=250000, shards=16), fuzz=dict(targets=["FuzzC09"], seconds=30), timeout=3600),
    assumptions=NUM_ASSUME,
    technique="exhaustive enumeration of all 8/16/32-bit source codes + property-based testing (rapid) on 64-bit sources; range/level/order/accuracy oracle and round trip through the inverse conversion",
    level_text=("Complete enumeration of every 8/16-bit (quick) and 32-bit (thorough) code into both float types, with injectivity and round trips; 64-bit sources "
                "sampled. One known finding (F9, UnsignedAsFloat) is reported as KNOWN-FINDING and excluded by a structural predicate. Long and wide at once: 12 channels x 40000 and 64 channels x 70001 samples per pair in the sweep; rapid couples very long buffers with 1..64 channels. Operands may also have grown out of an empty window (Slice(fr,fr) then Append). Named element types (34 further instantiations); a source that was the output of a conversion and is converted through a window cut then (fix 5). Operands of unequal length (source or destination two frames longer). One destination buffer per destination type may be shared by all instantiations (fix 8); the same values are converted again in three other arrangements and compared bit for bit. A source that was converted into a shorter destination before (fix 9). Output in pieces: two adjacent destination windows of one parent, the source going on beyond the first (fix 10). Same-type instantiations between adjacent windows of one parent (fix 11). One call of 150001 samples for every eighth (fourth) instantiation."),
    level_note="'plus float rounding' is taken as 4 ulp of 1 in the destination float type.",
)
PROPS["C16"] = dict(
    pkg="c16", idx=16,
    rule=("Cases = depth b in 1..64 x signed and unsigned 64-bit values to clip (sweep: every int64/uint64 within +-3 of 0, +-2^k and the type bounds, for "
          "all 64 depths; rapid: values around the depth's own bounds and uniform random) x a Scale[T](h,l) query (sweep: all pairs h>=l in 1..64 x the 11 "
          "integer types). Oracle (math/big): Max/Min/MaxUnsigned = 2^(b-1)-1, -2^(b-1), 2^b-1; Signed/UnsignedValue = clamp, idempotent, order-preserving "
          "on sorted inputs; Scale = 2^(h-l) whenever that fits T. Non-trivial: any depth other than 8 (the only one the examples touch), or a Scale query."
          ' Scale is called for every (type,h,l) - its result is checked only when it fits - with the element types interleaved in rotating orders; a concurrent pass evaluates different depths from 16 goroutines at once. The six groups of calls run in a drawn order; fresh-process cases (the test binary re-executes itself) make each group the first library call of a process.'),
    quick=dict(rapid=dict(checks=80000, shards=8), det="TestRegress|TestSweep|TestConcurrent|TestFresh"),
    thorough=dict(rapid=dict(checks=400000, shards=16), fuzz=dict(targets=["FuzzC16"], seconds=20), det="TestRegress|TestSweep|TestConcurrent|TestFresh"),
    assumptions=COMMON_ASSUME,
    technique="exhaustive enumeration of all 64 depths x boundary values and all Scale depth pairs x types + property-based testing (rapid), compared with math/big",
    level_text=("All 64 depths, the boundary-dense value set and every Scale(h,l,T) combination are enumerated completely in both tiers; random 64-bit values add sampling. 48 swept and about one in 2500 drawn cases are evaluated in a fresh process, each of the six call groups first."),
    level_note="Depths outside 1..64 are outside the property.",
)

PROPS["C17"] = dict(
    pkg="c17", idx=17,
    rule=("Cases = frequency f (standard audio rates 8 kHz..5.6448 MHz, integer rates 1..10^6, fractional p/q, powers of two (exact ties), random float64 in "
          "[0.01,10^7]) x event counts in 0..f*86400 and durations in 0..24 h, half of them moved to the argument closest to a rounding tie within a window of "
          "512. Oracle (exact math/big.Rat, f taken as the exact float64): |Duration(n) - n*10^9/f| <= 1/2 + 2^-50*exact ns, |Events(d) - f*d/10^9| <= 1/2 + "
          "2^-50*exact, both non-decreasing (n vs n+1, d vs d+1, along sorted samples), and for f<=10^6 Events(Duration(n)) == n. Non-trivial: the exact value "
          "is not an integer (rounding direction matters); sub-class within 10^-3 of a tie."
          ' Rates next to integers (a few ulps, 2^-14..2^-45 away), rates with whole-nanosecond periods (10^9/(2^a 5^b)), spans next to 24 h, arguments solved to sit right before/after a rounding tie, and a neighbouring rate evaluated in between.'),
    quick=dict(rapid=dict(checks=60000, shards=8)),
    thorough=dict(rapid=dict(checks=300000, shards=16), fuzz=dict(targets=["FuzzC17"], seconds=20)),
    assumptions=COMMON_ASSUME + ["'plus float rounding' is taken as a relative 2^-50 of the exact value (two float64 roundings)"],
    technique="property-based testing (rapid) with tie-seeking generators + deterministic grid over standard rates, compared with exact rational arithmetic",
    level_text=("Sampled exploration with an exact rational oracle; the standard rates are covered by a deterministic grid (first 300 counts, +-3 around every hour up to 24 h). Arguments whose product (rate x duration, count x 10^9) lies next to a multiple of 2^53, 2^63 or 2^64 are drawn and swept. Round arguments (multiples of 1 us ... 1 min; of powers of ten and block sizes) with both neighbours are drawn and swept."),
    level_note="Domain limited to 0.01 Hz <= f <= 10 MHz, spans up to 24 h, as the property quantifies.",
)
PROPS["C10"] = dict(
    pkg="c10", idx=10,
    rule=("Cases = one PoolAlloc[T](Allocator{C,L,K}) (13 types, C 1..4, K 0..8, L = 0 / K / in between, C*K = 0 included) x a generated history of up to "
          "41 steps from {get (<= 6 outstanding), put, gc (runtime.GC twice), AppendSample x n, Append within capacity, Append beyond capacity (buffer dropped, "
          "never put), Write, WriteStriped, SetSample, reslice from frame 0}; no use after Put and no double Put by construction. Oracle after every get: "
          "Channels/Length/Capacity/Len/Cap/BitDepth equal a fresh Alloc's and every sample over Slice(0,K) is zero; after every step every outstanding buffer "
          "still reads its own ownership stamp plus its own writes over its whole capacity (no shared storage). Non-trivial: a get that returned a recycled "
          "object (pointer previously passed to Put); sub-classes recycled after dirty use, after reslice-to-shorter, with L>0, several outstanding."
          " A checked-out buffer keeps all its headers (the original and every reslice from frame 0): operations and Put may go through any of them; a header that grows beyond the capacity leaves alone; 'quiet' checkouts are not stamped; floating types get -0.0 among the written values. Burst histories keep up to 40 buffers checked out at once and put them back oldest or newest first; a buffer object returned by Get while a checkout still holds it is a violation. Rare histories on pooled buffers of 65537..70001 samples; two named element types; the storage's own length and capacity (read by reflection) must agree with Len()/Cap(). Growing appends may end in partial frames; the grown header is offered to Put half of the time (refused or not, later buffers must have the pool's shape)."),
    quick=dict(rapid=dict(checks=20000, shards=8)),
    thorough=dict(rapid=dict(checks=50000, shards=16), fuzz=dict(targets=["FuzzC10"], seconds=30)),
    assumptions=COMMON_ASSUME + ["sync.Pool hands a just-put object back to the same goroutine almost always; the class histogram in the evidence shows how often a recycled buffer was observed"],
    technique="model-based stateful property testing (rapid-generated operation histories, shrunk as one value) + bounded-exhaustive get/use/reslice/put/get sweep; freshness and ownership-stamp invariants after every step",
    level_text=("Generated pool histories against a freshness invariant and per-buffer ownership models; the reuse path is enumerated exhaustively for histories "
                "get,use,[reslice],put,get,get over 13 types x C<=3 x K<=3 (5)."),
    level_note="Recycling depends on sync.Pool's per-P cache; the evidence counts recycled gets so a run that never recycled is visible.",
)
PROPS["C12"] = dict(
    pkg="c12", idx=12,
    rule=("Histories over {alloc, Slice (valid and invalid), AppendSample, Append (any ordered pair of live views with equal channel count, self and "
          "aliases included; sources overlapping the written region excluded), Write, SetSample, drop} executed side by side on the implementation and on a "
          "model of plain Go slices (storage id, offset, len, cap). (a) bounded-exhaustive DFS: every operation sequence up to depth 3 (quick) / 4 (thorough) "
          "after the initial allocation, 1-3 channels, capacity <= 4 frames, <= 6 live views, 4 initial shapes; (b) rapid: 1-200 steps, up to 8 channels, "
          "capacity up to 64 frames, 7 element types; (c) thorough: native fuzzing of a byte-coded history. Oracle after every step: every live view's "
          "Len/Cap/Length/Capacity, every sample in [0,Len) and, through a capacity-long reslice, every position in [Len,Cap) equal the model's; capacity after a "
          "growing append is read from the implementation and only constrained. Non-trivial: a mutation through a view while another view of the same storage is "
          "alive; sub-classes growing append with a live old-storage view, AppendSample into a sibling's range, slice beyond length, self-append, rejected slice."
          ' Histories also contain uneven WriteStriped calls; floating types get -0.0 stamps; Read is cross-checked against Sample after every step; histories are bounded to 65536 samples per view.'),
    quick=dict(rapid=dict(checks=8000, shards=8)),
    thorough=dict(rapid=dict(checks=60000, shards=16), fuzz=dict(targets=["FuzzC12"], seconds=60), timeout=3600),
    assumptions=COMMON_ASSUME + ["capacity chosen by a growing Append is the Go runtime's; the model reads it from the implementation (>= length, whole frames when the length is)",
                                 "an in-place Append may trim a non-frame-aligned capacity to the frame multiple (library alignment); both outcomes are accepted"],
    technique="model-based testing: bounded-exhaustive DFS over operation histories + rapid-generated long histories + native fuzzing, all compared step by step with a plain-Go-slice reference model",
    level_text=("Every history up to depth 3/4 over the small alphabet is enumerated (transition count in the evidence); long random histories over larger shapes are "
                "sampled; all views are compared with the model after every step, so visibility through exactly the covering views follows. Append sources may overlap the region written (the model appends the source as it was before the call)."),
    level_note="Trusts the harness model of Go slices; the exact transition count of the DFS is recorded in coverage.notes.dfs_transitions.",
)
PROPS["C18"] = dict(
    pkg="c18", idx=18,
    rule=("Cases = (operation, element types, channels 1..8, frames 0..4096, destination whole buffer or a window with spare capacity). Operations: Sample/SetSample "
          "and the size methods, AppendSample below and at capacity, Write/Read/WriteStriped/ReadStriped (169 type pairs, nil and uneven members), the nine "
          "conversions (169 instantiations), Append within capacity, channel view get/set, pool Get-use-Put cycle, Slice (local and escaping). Oracle: "
          "no heap object allocated in 300 calls after a warm-up call (100 calls for shapes above 4096 samples; exact runtime.MemStats totals, garbage collector off, smallest of three attempts), escaping Slice <= 1 per call; everything the closure needs is allocated beforehand and headers are restored by struct "
          "assignment. Non-trivial: frames >= 1 (the operation does work); distinct = distinct (operation, types, shape)."
          ' Also: Append within capacity when both buffers end in partial frames, pool cycle through two by-value copies of the allocator, and a 2x2048 shape in the quick sweep.'),
    quick=dict(rapid=dict(checks=4000, shards=4)),
    thorough=dict(rapid=dict(checks=30000, shards=8)),
    assumptions=COMMON_ASSUME + ["escape analysis and inlining are compiler decisions: the verdict is for go1.23.5 and the generated instantiations/shapes",
                                 "non-race build, one process per shard (the measurement pins GOMAXPROCS to 1, switches the garbage collector off and reads process-wide malloc counters)"],
    technique="property-based testing (rapid) + exhaustive operation x type sweep with exact heap-allocation counts (runtime.MemStats) as the oracle",
    level_text=("Every operation x every element type (all 169 conversions) is measured at several shapes in both tiers; rapid samples further shapes and type pairs. Append within capacity also with source and destination being windows of one parent, and of a buffer onto itself. Interleaved get/put cycles of two pools of the same shape for every pair of element types. The 8 x 4096 shape runs for every conversion in the quick tier too. appendSampleOnFullGrownBuffer measures the first call on 32 freshly prepared buffers with runtime.MemStats (minimum of three attempts, at least 16 allocations to count)."),
    level_note="Counts are exact totals (testing.AllocsPerRun would truncate the per-run average and hide an allocation every n-th call); a stray allocation of the runtime is excluded by taking the smallest of three attempts, a pool refill after a collection by switching the collector off while measuring. A period longer than the 300 measured calls is out of reach.",
)
PROPS["C11"] = dict(
    pkg="c11", idx=11, race=True,
    rule=("Cases = (element type, allocator shape, G in {2,3,4,8,16,32,64} goroutines, M in 1..30 get/fill/verify/put cycles each, GOMAXPROCS in {1,2,4,8,16}, a per-goroutine "
          "mask of runtime.Gosched() yield points after get / after fill / after verify, shared *PoolAllocator or by-value copies, optionally a goroutine forcing "
          "garbage collections during the run). Built with -race; no synchronisation between workers besides a start barrier and the final WaitGroup. Oracle: the race "
          "detector stays silent; every obtained buffer has the allocator's shape and reads zero over its whole capacity; each goroutine writes its (goroutine, cycle) "
          "stamp over the whole capacity, yields, and re-reads it before Put - a foreign value means two holders. Non-trivial: G>=4 with GOMAXPROCS>=2 and at least one "
          "recycled buffer observed; also counted: by-value copies, GC during the run."
          ' Allocators may be used before the by-value copies are taken; a few configurations use multi-megabyte buffers.'),
    quick=dict(rapid=dict(checks=150, shards=8), timeout=900),
    thorough=dict(rapid=dict(checks=1000, shards=12), timeout=3600),
    assumptions=COMMON_ASSUME + ["schedules are sampled by the Go scheduler, not enumerated; a failing schedule cannot be replayed deterministically (replay re-runs the case repeatedly)",
                                 "the race detector reports unordered conflicting accesses that actually executed; it does not need the unlucky interleaving to corrupt data"],
    technique="randomised concurrent stress under the Go race detector with rapid-generated configurations (goroutines, GOMAXPROCS, yield points, GC); freshness and ownership-stamp oracle",
    level_text=("Schedule sampling, not enumeration: rapid generates the concurrency configuration, the Go scheduler picks the interleaving. Decisive for the realistic defect classes "
                "(unsynchronised shared state in the pool, shared buffers handed out twice) through the race detector and ownership stamps; a defect needing one specific "
                "preemption point is out of reach (DESIGN.md section 6). Goroutines hold 1..4 buffers at the same time (released in get order or newest first); hammer cases run thousands of cycles on tiny buffers, a third of them with a shared ownership table; a third of the cases put back a Slice(0,k) view instead of the buffer; in half of the cases by-value goroutines copy the allocator while others already use it; the bookkeeping keeps no pointer to a buffer that went back; a quarter of the stamps of floating types are -0; in two thirds of the cases holders first grow the header they obtained to its capacity (AppendSample or Append) and read it back before Put."),
    level_note="Race reports are turned into violations with the process log as the replay artefact; so is an abort of the race build's pointer checker (checkptr) whose innermost non-runtime frame is in pipelined.dev/signal.",
)
FIRSTUSE = [dict(name="firstuse-" + t, run="TestFirstUse", env={"VERIF_FIRST_TYPE": t})
            for t in ["int8", "uint8", "int16", "uint16", "int32", "uint32", "int64", "uint64", "float32", "float64"]]

PROPS["C19"] = dict(
    pkg="c19", idx=19, race=True,
    rule=("Cases = (element type, channels, frames F, R readers + W writers <= 16, GOMAXPROCS in {1,2,4,8,16}, per-goroutine scripts of up to 40 operation codes and yield masks). "
          "Frames [0,RO) are read-only; writer w owns shared.Slice(s_w,e_w) over its own disjoint frame range. Readers run every read-only entry point on the shared header "
          "and the read-only range: Sample, the six size methods, BufferIndex, Read, ReadStriped, Slice (also nested), Channel(c).Sample and its size methods, conversion source "
          "into a private destination. Writers use only their window: SetSample, Write, WriteStriped (nil members), conversion destination, Channel(c).SetSample. Built with -race; "
          "no synchronisation besides a start barrier and the WaitGroup. Oracle: race detector silent; every reader result equals the same script run sequentially beforehand; "
          "afterwards the whole buffer equals the sequential execution of the writers' scripts and the header is unchanged. Non-trivial: R>=2 and W>=2 with GOMAXPROCS>=2 "
          "(sub-classes concurrentReaders, concurrentDisjointWriters)."
          ' Shared buffers may end in a partial frame and reach 66002 samples; ReadStriped is also called on the shared header; per-type TestFirstUse processes make the first library calls of a process concurrent.'),
    quick=dict(rapid=dict(checks=250, shards=8), timeout=900, extra=FIRSTUSE),
    thorough=dict(rapid=dict(checks=1500, shards=12), timeout=3600, extra=FIRSTUSE),
    assumptions=COMMON_ASSUME + ["schedules are sampled by the Go scheduler, not enumerated; a failing schedule cannot be replayed deterministically (replay re-runs the case repeatedly)",
                                 "the race detector reports unordered conflicting accesses that actually executed"],
    technique="randomised concurrent stress under the Go race detector with rapid-generated reader/writer scripts; differential oracle against the sequential execution of the same scripts",
    level_text=("Schedule sampling, not enumeration. Hidden shared mutable state in a read path or a write outside a slice's window is an unordered conflicting access, which the race "
                "detector reports whenever both accesses execute, whatever the interleaving; results are also compared with a sequential run. A fifth of the cases use 5..17 (rarely 60..70) channels; the sweep includes 9 and 16. Writer windows may reach into the spare capacity, with a boundary right behind a partial last frame; reader results are rendered without package fmt (its pooled printers would order the goroutines); writers offer inputs longer than their window, also to an empty window; a third of the cases take the shared buffer from a pool allocator, a quarter from a growing Append (no Cap() or Slice() call on it before the goroutines start); conversions also run from and into the same-width twin type; conversions also read straight from the shared header into a destination that ends with the read-only frames; in half of the cases floating content lies strictly inside (-1,1)."),
    level_note="Race reports are turned into violations with the process log as the replay artefact; so is an abort of the race build's pointer checker (checkptr) whose innermost non-runtime frame is in pipelined.dev/signal.",
)

# thorough tier: the deterministic sweeps (at their quick size) and rapid cases are repeated on a 32-bit
# build (GOARCH=386: int, uint and uintptr are 32 bits wide), except for the properties built with -race
for _p in PROPS.values():
    if not _p.get("race"):
        _p["thorough"]["x386"] = dict(checks=min(_p["quick"]["rapid"]["checks"], 20000), shards=2)
        _p["assumptions"] = _p["assumptions"] + ["thorough tier: a second, 32-bit build (GOARCH=386, executed on the same amd64 machine) repeats the quick-size sweeps and rapid cases"]

# what later seeded rounds added to the level descriptions
_MORE_LEVEL = {
    "C01": "Every slice handed to an earlier call of a case is re-checked after every later call (ledger); windows of 4090..9000 frames see 3-6 calls; per-channel slices of writer and reader may be pieces of one caller block (planar, all but the last equal, two inner members exchanged, one kept elsewhere) or prefixes of one array (writer); one outer slice is reused by all the striped calls of a case.",
    "C13": "Named element types that carry methods (BitDepth, String, Len, ...) are among the 32 types.",
    "C18": "Every conversion is also measured in turns with two other instantiations of its function (convInTurns).",
    "C02": "Every window of a parent produced by a growing Append is sliced again (its capacity need not be whole frames): header and raw capacity unchanged, nested window equal to the direct cut.",
    "C11": "Pools without channels and zero-capacity pools whose buffers grow by less than a frame and are offered back are cases too.",
    "C19": "With no writers, readers also read everything striped, each channel as far as it has samples (partial last frame included).",
    "C03": "Marathon cases: 300..70000 appends of short sources onto one header (shape checked at every step, contents at the end). A quarter of the destinations come out of a pool allocator.",
    "C04": "The sweep fills buffers of 70000..200000 samples one sample at a time, and goes on beyond.",
    "C05": "Same-type conversions are also run in place (a window onto itself, through one and through two headers): nothing may change. NaN inputs include quiet and signalling patterns with the payload in the high or the low bits. The two windows of one parent are also reached through two or three Slice calls each, with own or shared outer windows that start at the same frame (Nest 1-4).",
    "C10": "Pooled buffers of 258..6000 samples with sparse single-sample writes far apart through a full window (gaps of untouched zeros).",
    "C12": "One Append between two windows of a parent of 66000..400000 samples (in place with the source before, overlapping and behind the region written; growing) is compared with copy/append on plain slices (Big cases).",
    "C15": "After every rejected conversion, Append and striped call the same operands are used again in calls with matching shapes, which must succeed with the expected effect.",
}
for _id, _t in _MORE_LEVEL.items():
    PROPS[_id]["level_text"] = PROPS[_id]["level_text"] + " " + _t

NOT_APPLICABLE = {}
