"""Per-property configuration of the driver: package, engines, budgets, rule text."""

COMMON_ASSUME = [
    "go1.23.5 linux/amd64; the harness imports pipelined.dev/signal from /repo through a replace directive, so every run compiles /repo's current working tree",
    "oracles are written from the property statement (plain-slice / exact-arithmetic models) and use only the exported API",
]

PROPS = {
    "C01": dict(
        pkg="c01", idx=1,
        rule=("Cases = (slice type S, buffer type B) from all 169 pairs x channels x window [a,b) of a sentinel-filled root "
              "(optionally with a partial last frame) x 1-3 operations from {Write, Read, WriteStriped, ReadStriped} with "
              "input/output lengths drawn relative to the buffer (0, shorter, equal, +1, much longer; striped: per-channel "
              "nil/empty/uneven). rapid-generated plus an exhaustive small grid per pair. Oracle: plain-slice model of the "
              "whole root storage, returned count, caller slices and both headers compared after every operation. "
              "Non-trivial: length mismatch, window strictly inside its root, partial last frame with >=2 channels, "
              "nil/empty/uneven striped member, S != B, or write-then-read round trip. Distinct = distinct 64-bit "
              "fingerprint of the canonical case."),
        quick=dict(rapid=dict(checks=60000, shards=2)),
        thorough=dict(rapid=dict(checks=300000, shards=16), fuzz=dict(targets=["FuzzC01"], seconds=45)),
        assumptions=COMMON_ASSUME,
        technique="property-based testing (rapid) + bounded-exhaustive sweep + native fuzzing against a plain-slice reference model with whole-storage frame condition",
        level_text=("Generated-input search: every reader/writer call is compared with a plain-slice model of the whole root storage "
                    "(values, untouched remainder, caller slices, headers, returned count) over all 169 element-type pairs, windows, "
                    "partial frames and short/long/uneven inputs; exhaustive on a small grid per pair, sampled elsewhere. "
                    "Exploration, not proof: absence is shown only for the enumerated grid."),
        level_note="Trusts Go's numeric conversions for values representable in both types, Alloc/Slice/AppendSample to build fixtures (themselves decided by C13/C02/C04), and the harness model.",
    ),
}
PROPS["C02"] = dict(
    pkg="c02", idx=2,
    rule=("Cases = element type x channels x root size x chain of 1-5 Slice(start,end) calls, each valid (end beyond the length, "
          "start 0, general) or invalid (start<0, start>end, end>capacity by 1 / by much, extreme magnitudes whose product with the "
          "channel count overflows). Oracle: Go-slice model (off,len,cap) in frames; child header, additive composition, sharing "
          "probed by writing stamps through the child and reading through parent and root and back, capacity region read through a "
          "capacity-long reslice, parent header and root storage unchanged; invalid ranges must panic and change nothing. "
          "Non-trivial: end beyond parent length, nesting depth >= 2, parent is an offset window, invalid range, overflowing argument."),
    quick=dict(rapid=dict(checks=40000, shards=2)),
    thorough=dict(rapid=dict(checks=200000, shards=16), fuzz=dict(targets=["FuzzC02"], seconds=30)),
    assumptions=COMMON_ASSUME,
    technique="property-based testing (rapid) + bounded-exhaustive two-level sweep against a Go-slice view model with bidirectional sharing probes",
    level_text=("Generated-input search over nested Slice chains, valid and invalid, against an (offset,len,cap) model; exhaustive for "
                "C<=3, K<=3 (5 thorough) over all first- and second-level ranges in [-2,K+2]^2 for all 13 types; extreme arguments sampled."),
    level_note="Trusts Alloc and Sample/SetSample to build and observe fixtures; panics are observed with recover().",
)

NOT_APPLICABLE = {}
